----------------------------- MODULE Gen_Format -----------------------------
(***************************************************************************)
(* Roles A and B for C05 in one run.  TLC enumerates every token list of   *)
(* length <= K over a menu of token kinds (fixed-length, self-delimiting,  *)
(* pad, literal, length-less) together with every assignment of values    *)
(* from small per-kind sets that include non-fitting values;               *)
(*  (B) the rows are written out and replayed through pack / unpack /      *)
(*      readlist / token-string construction of the real library in        *)
(*      several spellings;                                                 *)
(*  (A) on every row the theorems of C05 are checked as invariants of the  *)
(*      specification itself: length = sum of token lengths, unpack        *)
(*      inverts pack, formats compose by concatenation, wrong value counts *)
(*      are refused.                                                       *)
(***************************************************************************)
EXTENDS Spec, Json, IOUtils
CONSTANT K
VARIABLE row

T(nm, n) == [nm |-> nm, n |-> n, hv |-> 0, val |-> <<0>>]
IntV(i) == VInt(IF i < 0 THEN 1 ELSE 0, Strip(UBits(Abs(i), 8)))
LitTok == [nm |-> "lit", n |-> NoneI, hv |-> 0, val |-> <<8, 1, -1, 2, 1, 0>>]
\* menu entry: token and the set of candidate values (empty set = consumes no value)
Menu == {
  [t |-> T("uint", 3), vs |-> {IntV(0), IntV(7), IntV(8)}],
  [t |-> T("int", 2), vs |-> {IntV(-2), IntV(1), IntV(2)}],
  [t |-> T("hex", 4), vs |-> {<<4, 10>>, <<4, 1, 2>>}],
  [t |-> T("bin", NoneI), vs |-> {<<6>>, <<6, 1, 0, 1>>}],
  [t |-> T("bool", NoneI), vs |-> {<<1, 1>>}],
  [t |-> T("bits", 2), vs |-> {<<8, 1, -1, 2, 0, 1>>}],
  [t |-> T("ue", NoneI), vs |-> {IntV(0), IntV(3)}],
  [t |-> T("se", NoneI), vs |-> {IntV(-1)}],
  [t |-> T("uie", NoneI), vs |-> {IntV(2)}],
  [t |-> T("pad", 1), vs |-> {}],
  [t |-> LitTok, vs |-> {}],
  [t |-> T("bytes", 1), vs |-> {<<7, 65>>}],
  [t |-> T("uintle", 16), vs |-> {IntV(1)}],
  [t |-> T("hex", NoneI), vs |-> {<<4, 15>>}]
}
Lists == UNION {[1..k -> Menu] : k \in 0..K}
\* all value assignments for a list of menu entries (one value per consuming token)
Consuming(ms) == {i \in 1..Len(ms) : ms[i].vs # {}}
Assignments(ms) ==
  LET idx == SetToSortSeq(Consuming(ms), <) IN
  {[j \in 1..Len(idx) |-> f[idx[j]]] : f \in [Consuming(ms) -> UNION {ms[i].vs : i \in Consuming(ms)}]
                                          \cap {g \in [Consuming(ms) -> UNION {ms[i].vs : i \in Consuming(ms)}] :
                                                  \A i \in Consuming(ms) : g[i] \in ms[i].vs}}
Rows == UNION {{[tk |-> [i \in 1..Len(ms) |-> ms[i].t], va |-> vs] : vs \in Assignments(ms)} : ms \in Lists}
ASSUME ndJsonSerialize(IOEnv.GEN_OUT, SetToSeq(Rows))

Init == row \in Rows
Next == UNCHANGED row
GenSpec == Init /\ [][Next]_row

Opts0 == [lsb0 |-> FALSE, ba |-> FALSE, mx |-> "saturate"]
P == DoPack(Opts0, "BitStream", row.tk, row.va)
Packed == ObjOfVal(P.vals[1])
ReadToks == [i \in 1..Len(row.tk) |-> IF IsLit(row.tk[i]) THEN T("bits", Len(row.tk[i].val) - 4) ELSE row.tk[i]]
ExpectedBack ==
  \* the values read back: consumed values in order, literals as bits objects, pads skipped
  LET items == [i \in 1..Len(row.tk) |->
                  IF IsPad(row.tk[i]) THEN <<>>
                  ELSE IF IsLit(row.tk[i]) THEN <<VNew("BitStream", SubSeq(row.tk[i].val, 5, Len(row.tk[i].val)))>>
                  ELSE IF Canon(row.tk[i].nm) = "bits" THEN
                       <<VNew("BitStream", SubSeq(TokValue(row.tk, row.va, i), 5, Len(TokValue(row.tk, row.va, i))))>>
                  ELSE <<TokValue(row.tk, row.va, i)>>] IN
  ConcatAll(items)
\* C05: the packed length is the sum of the token lengths
LengthIsSum ==
  P.k = "ok" => Len(Packed.v) = SumSeq([i \in 1..Len(row.tk) |-> Len(TokBits(row.tk, row.va, i).bits)])
\* C05: unpack inverts pack whenever the format can be read back (structure rules satisfied)
UnpackInvertsPack ==
  (P.k = "ok" /\ ~BadStructure(ReadToks)) =>
     LET U == DoParse("p", Packed, Opts0, ReadToks, 0, FALSE) IN
     U.k = "ok" /\ U.vals = ExpectedBack
\* C05: formats compose - packing a split format piecewise and concatenating gives the same bits
Composes ==
  P.k = "ok" =>
    \A c \in 0..Len(row.tk) :
      LET n1 == ConsumedUpTo(row.tk, c)
          A == DoPack(Opts0, "BitStream", SubSeq(row.tk, 1, c), SubSeq(row.va, 1, n1))
          B == DoPack(Opts0, "BitStream", SubSeq(row.tk, c + 1, Len(row.tk)), SubSeq(row.va, n1 + 1, Len(row.va))) IN
      A.k = "ok" /\ B.k = "ok" /\ ObjOfVal(A.vals[1]).v \o ObjOfVal(B.vals[1]).v = Packed.v
\* C05: too few or too many values are refused
WrongCountRefused ==
  /\ DoPack(Opts0, "BitStream", row.tk, Append(row.va, IntV(1))).k = "raise"
  /\ (Len(row.va) > 0 => DoPack(Opts0, "BitStream", row.tk, SubSeq(row.va, 1, Len(row.va) - 1)).k = "raise")
\* C15: a value that does not fit its token makes the whole pack fail
NonFittingRefused ==
  (\E i \in 1..Len(row.tk) : ~TokBits(row.tk, row.va, i).ok) => P.k = "raise"
=============================================================================
