----------------------------- MODULE MC_BitSeq -----------------------------
(***************************************************************************)
(* Role A for C01 / C16 / C12: the sequence operators of BitSeq satisfy    *)
(* their algebraic laws and their two independent definitions agree, for   *)
(* every content up to L bits and every (start, stop, step) triple in and  *)
(* beyond range.  Each initial state is one point of the input space; the  *)
(* laws are invariants.                                                    *)
(***************************************************************************)
EXTENDS BitSeq, TLC
CONSTANT L
VARIABLES s, a, b, c
vars == <<s, a, b, c>>

Idx == {NoneI} \cup (-(L + 2)..(L + 2))
Steps == {NoneI} \cup ((-(L + 1)..(L + 1)) \ {0})

Init == s \in BitsUpTo(L) /\ a \in Idx /\ b \in Idx /\ c \in Steps
Next == UNCHANGED vars
Spec == Init /\ [][Next]_vars

n == Len(s)
\* the slice positions, listed by the arithmetic progression, are exactly the
\* filtered position set, in the order given by the sign of the step
TwoDefinitionsAgree ==
  LET ps == SlicePositions(n, a, b, c)
      set == SlicePosSet(n, a, b, c) IN
  /\ ToSet(ps) = set
  /\ Len(ps) = Cardinality(set)
  /\ \A i \in 1..(Len(ps) - 1) : IF SliceStep(c) > 0 THEN ps[i] < ps[i + 1] ELSE ps[i] > ps[i + 1]
SliceInRange == \A i \in 1..SliceLen(n, a, b, c) : SlicePositions(n, a, b, c)[i] \in 0..(n - 1)
SliceLenOK == Len(PySlice(s, a, b, c)) = SliceLen(n, a, b, c)
FullSlice == PySlice(s, NoneI, NoneI, NoneI) = s /\ PySlice(s, NoneI, NoneI, -1) = Rev(s)
RevInvolution == Rev(Rev(s)) = s
\* deleting a slice and the slice itself partition the sequence
DelComplement == Len(DelSlice(s, a, b, c)) + SliceLen(n, a, b, c) = n
\* unit-step slices are contiguous windows
UnitStep == IsNone(c) \/ c # 1 \/
            PySlice(s, a, b, c) = Sub(s, SliceStart(n, a, 1), MaxI(SliceStart(n, a, 1), SliceStop(n, b, 1)))
\* a negative-step slice is the reversal of a positive-step slice over the same positions
NegStepMirror ==
  IsNone(c) \/ c > 0 \/
    LET ps == SlicePositions(n, a, b, c) IN
    Len(ps) = 0 \/ PySlice(s, a, b, c) = Rev(PySlice(s, ps[Len(ps)], ps[1] + 1, -c))
\* assigning a slice its own value changes nothing
SetSliceIdentity ==
  /\ (IsNone(c) \/ c = 1) => SetSlice1(s, a, b, PySlice(s, a, b, 1)) = s
  /\ (~IsNone(c) /\ c # 1) => SetSliceExt(s, a, b, c, PySlice(s, a, b, c)) = s
=============================================================================
