------------------------------- MODULE CodecBase -----------------------------
(***************************************************************************)
(* Value <-> bits: the canonical encodings of every fixed-length dtype     *)
(* (C02), range and size classification (C15), exponential-Golomb codes    *)
(* (C10), IEEE 754 narrowing / widening on bit patterns, and struct-code   *)
(* composition (C18).                                                      *)
(*                                                                         *)
(* TLC integers are 32 bit, so integers of any size are (sign, magnitude   *)
(* bit sequence) and floats are their 64-bit IEEE pattern; all arithmetic  *)
(* below is on bit sequences.  Values are in the flat encoding of          *)
(* harness/enc.py:  <<2, neg, mag...>> int, <<3, 64 bits>> float,          *)
(* <<4|5|6, digits...>> hex/oct/bin text, <<7, bytes...>>, <<1, b>> bool.  *)
(***************************************************************************)
EXTENDS Bitstring

---------------------------------------------------------------------------
(* Integers on bit sequences                                               *)

Strip(q) == IF \A i \in 1..Len(q) : q[i] = 0 THEN <<>>
            ELSE SubSeq(q, Min({i \in 1..Len(q) : q[i] = 1}), Len(q))
\* q + 1 (q without leading zeros; result without leading zeros)
IncMag(q) == IF \A i \in 1..Len(q) : q[i] = 1 THEN <<1>> \o Zeros(Len(q))
             ELSE LET k == Max({i \in 1..Len(q) : q[i] = 0}) IN
                  [i \in 1..Len(q) |-> IF i < k THEN q[i] ELSE IF i = k THEN 1 ELSE 0]
\* q - 1 for q > 0
DecMag(q) == LET k == Max({i \in 1..Len(q) : q[i] = 1}) IN
             Strip([i \in 1..Len(q) |-> IF i < k THEN q[i] ELSE IF i = k THEN 0 ELSE 1])
\* fixed-width increment (wraps never used)
IncBits(q) == LET k == Max({i \in 1..Len(q) : q[i] = 0}) IN
              [i \in 1..Len(q) |-> IF i < k THEN q[i] ELSE IF i = k THEN 1 ELSE 0]

VInt(neg, mag) == <<2, IF mag = <<>> THEN 0 ELSE neg>> \o mag
IntNeg(val) == val[2]
IntMag(val) == SubSeq(val, 3, Len(val))

FitsUint(neg, mag, w) == w >= 1 /\ (neg = 0 \/ mag = <<>>) /\ Len(mag) <= w
FitsSint(neg, mag, w) ==
  w >= 1 /\ (IF neg = 0 \/ mag = <<>> THEN Len(mag) <= w - 1
             ELSE Len(mag) < w \/ (Len(mag) = w /\ MagIsPow2(mag)))

DecUint(bits) == VInt(0, Strip(bits))
DecSint(bits) == IF bits[1] = 0 THEN VInt(0, Strip(bits)) ELSE VInt(1, Strip(TwosNeg(bits)))

---------------------------------------------------------------------------
(* Text digits and bytes                                                   *)

DigitBits(d, w) == UBits(d, w)
FromDigits(ds, w) == FoldLeft(LAMBDA acc, d : acc \o UBits(d, w), <<>>, ds)
ToDigits(bits, w) == [k \in 1..(Len(bits) \div w) |-> UVal(Sub(bits, w * (k - 1), w * k))]
ValDigits(val) == SubSeq(val, 2, Len(val))

---------------------------------------------------------------------------
(* IEEE 754 on bit patterns.  A format is (E exponent bits, M mantissa     *)
(* bits) with bias 2^(E-1)-1.  Narrow rounds a double to the format        *)
(* (round-to-nearest-even, gradual underflow, overflow to infinity);       *)
(* Widen is exact.                                                         *)

Bias(E) == Pow2(E - 1) - 1
IsNaN64(b) == UVal(Sub(b, 1, 12)) = 2047 /\ \E i \in 13..64 : b[i] = 1
IsInf64(b) == UVal(Sub(b, 1, 12)) = 2047 /\ \A i \in 13..64 : b[i] = 0
CanonNaN(E, M) == <<0>> \o Ones(E) \o <<1>> \o Zeros(M - 1)

Narrow(b, E, M) ==
  LET s == b[1]
      e == UVal(Sub(b, 1, 12))
      m == Sub(b, 12, 64)
      sig == <<1>> \o m                       \* 53 bit significand 1.m
      x == e - 1023
      te == x + Bias(E)
      k == IF te >= 1 THEN 0 ELSE 1 - te      \* right shift for gradual underflow
      ext(i) == IF i <= k THEN 0 ELSE IF i - k <= 53 THEN sig[i - k] ELSE 0
      field == UBits(IF te >= 1 THEN te ELSE 0, E) \o [i \in 1..M |-> ext(i + 1)]
      guard == ext(M + 2)
      sticky == \E j \in (M + 3)..(k + 53) : ext(j) = 1
      up == guard = 1 /\ (sticky \/ field[E + M] = 1)
  IN
  IF e = 2047 THEN (IF \A i \in 1..52 : m[i] = 0 THEN <<s>> \o Ones(E) \o Zeros(M) ELSE CanonNaN(E, M))
  ELSE IF e = 0 THEN <<s>> \o Zeros(E + M)                      \* +-0 and double subnormals
  ELSE IF te >= Pow2(E) - 1 THEN <<s>> \o Ones(E) \o Zeros(M)    \* overflow
  ELSE IF k > M + 2 THEN <<s>> \o Zeros(E + M)                   \* far below the smallest subnormal
  ELSE <<s>> \o (IF up THEN IncBits(field) ELSE field)

Widen(b, E, M) ==
  LET s == b[1]
      e == UVal(Sub(b, 1, 1 + E))
      m == Sub(b, 1 + E, 1 + E + M)
      pad(q) == q \o Zeros(52 - Len(q))
  IN
  IF e = Pow2(E) - 1 THEN
     (IF \A i \in 1..M : m[i] = 0 THEN <<s>> \o Ones(11) \o Zeros(52) ELSE <<0>> \o Ones(11) \o <<1>> \o Zeros(51))
  ELSE IF e = 0 THEN
     (IF \A i \in 1..M : m[i] = 0 THEN <<s>> \o Zeros(63)
      ELSE LET j == Min({i \in 1..M : m[i] = 1}) IN
           <<s>> \o UBits((1 - Bias(E)) - j + 1023, 11) \o pad(Sub(m, j, M)))
  ELSE <<s>> \o UBits(e - Bias(E) + 1023, 11) \o pad(m)

FloatBits(val) == SubSeq(val, 2, 65)
VFloat(b64) == <<3>> \o (IF IsNaN64(b64) THEN <<0>> \o Ones(11) \o <<1>> \o Zeros(51) ELSE b64)
FloatEM(n) == CASE n = 16 -> <<5, 10>> [] n = 32 -> <<8, 23>> [] n = 64 -> <<11, 52>>
EncFloat(b64, n) == IF n = 64 THEN b64 ELSE Narrow(b64, FloatEM(n)[1], FloatEM(n)[2])
DecFloat(bits) == IF Len(bits) = 64 THEN bits ELSE Widen(bits, FloatEM(Len(bits))[1], FloatEM(Len(bits))[2])
\* bfloat: the upper half of the float32 pattern (truncation, no rounding)
EncBFloat(b64) == Sub(Narrow(b64, 8, 23), 0, 16)
DecBFloat(bits) == Widen(bits \o Zeros(16), 8, 23)
SameFloat(a, b) == (IsNaN64(a) /\ IsNaN64(b)) \/ a = b

---------------------------------------------------------------------------
(* Exponential-Golomb codes (C10)                                          *)

EncUE(mag) == LET b == IncMag(mag) IN Zeros(Len(b) - 1) \o b
EncSE(neg, mag) ==
  IF mag = <<>> THEN <<1>>
  ELSE IF neg = 0 THEN Zeros(Len(mag)) \o mag \o <<0>>     \* code number 2v-1, +1 = 2v
  ELSE Zeros(Len(mag)) \o mag \o <<1>>                     \* code number 2|v|, +1 = 2|v|+1
EncUIE(mag) ==
  LET b == IncMag(mag) IN       \* 1 b2 ... bk  ->  0 b2 0 b3 ... 0 bk 1
  [i \in 1..(2 * Len(b) - 1) |->
     IF i = 2 * Len(b) - 1 THEN 1 ELSE IF i % 2 = 1 THEN 0 ELSE b[i \div 2 + 1]]
EncSIE(neg, mag) == IF mag = <<>> THEN <<1>> ELSE EncUIE(mag) \o <<neg>>

\* positional decoders: [ok, val (encoded int), next] reading data from 0-based pos
NoCode == [ok |-> FALSE, val |-> <<2, 0>>, next |-> 0]
DecUEat(data, pos) ==
  LET n == Len(data)
      ones == {i \in (pos + 1)..n : data[i] = 1} IN
  IF ones = {} THEN NoCode
  ELSE LET f == Min(ones)                 \* 1-based index of the first 1
           z == f - 1 - pos               \* leading zeros
       IN IF f + z > n THEN NoCode
          ELSE [ok |-> TRUE, val |-> VInt(0, DecMag(Strip(<<1>> \o Sub(data, f, f + z)))), next |-> f + z]
SEofUE(val) ==
  \* code number k -> (-1)^(k+1) * ceil(k/2)
  LET mag == IntMag(val) IN
  IF mag = <<>> THEN VInt(0, <<>>)
  ELSE IF mag[Len(mag)] = 1 THEN VInt(0, IncMag(Strip(SubSeq(mag, 1, Len(mag) - 1))))   \* odd: (k+1)/2
  ELSE VInt(1, Strip(SubSeq(mag, 1, Len(mag) - 1)))                                      \* even: -(k/2)
DecSEat(data, pos) == LET r == DecUEat(data, pos) IN IF r.ok THEN [r EXCEPT !.val = SEofUE(r.val)] ELSE r
DecUIEat(data, pos) ==
  LET n == Len(data)
      \* the code ends at the first 1 found at an even offset from pos (offsets 0, 2, 4, ...)
      ends == {i \in (pos + 1)..n : (i - 1 - pos) % 2 = 0 /\ data[i] = 1} IN
  IF ends = {} THEN NoCode
  ELSE LET f == Min(ends)
           pairs == (f - 1 - pos) \div 2
           b == <<1>> \o [j \in 1..pairs |-> data[pos + 2 * j]]
       IN [ok |-> TRUE, val |-> VInt(0, DecMag(Strip(b))), next |-> f]
DecSIEat(data, pos) ==
  LET r == DecUIEat(data, pos) IN
  IF ~r.ok THEN r
  ELSE IF IntMag(r.val) = <<>> THEN r
  ELSE IF r.next + 1 > Len(data) THEN NoCode
  ELSE [ok |-> TRUE, val |-> VInt(data[r.next + 1], IntMag(r.val)), next |-> r.next + 1]

GolombNames == {"ue", "se", "uie", "sie"}
DecGolombAt(name, data, pos) ==
  CASE name = "ue" -> DecUEat(data, pos) [] name = "se" -> DecSEat(data, pos)
    [] name = "uie" -> DecUIEat(data, pos) [] name = "sie" -> DecSIEat(data, pos)
EncGolomb(name, neg, mag) ==
  CASE name = "ue" -> EncUE(mag) [] name = "se" -> EncSE(neg, mag)
    [] name = "uie" -> EncUIE(mag) [] name = "sie" -> EncSIE(neg, mag)

\* results of encoders: [ok, bits]
Bad == [ok |-> FALSE, bits |-> <<>>]
Good(b) == [ok |-> TRUE, bits |-> b]
=============================================================================
