SPECIFICATION Spec
CONSTANT LMax = 3
CONSTANT LLit = 2
CONSTANT Fams = {"grow", "del", "setitem", "setslice", "range", "set", "replace"}
CONSTANT Depth = 0
CONSTANT Record = FALSE
INVARIANT PosValid
INVARIANT ClassesFixed
INVARIANT Bounded
PROPERTY ImmutableConst
PROPERTY AtMostOneChanges
PROPERTY OptsOnlyBySetopt
CHECK_DEADLOCK FALSE
