SPECIFICATION Spec
CONSTANT LMax = 2
CONSTANT LLit = 1
CONSTANT Fams = {"grow", "del", "setitem", "setslice", "range", "set", "replace"}
CONSTANT Depth = 0
CONSTANT Record = FALSE
INVARIANT PosValid
INVARIANT ClassesFixed
INVARIANT Bounded
PROPERTY ImmutableConst
PROPERTY AtMostOneChanges
PROPERTY OptsOnlyBySetopt
PROPERTY RefinesPosMachine
CHECK_DEADLOCK FALSE
