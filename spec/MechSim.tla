------------------------------ MODULE MechSim ------------------------------
(***************************************************************************)
(* Role B for the mechanism model: behaviours of Mech.tla (all copy        *)
(* disciplines on) with every action's parameters recorded, printed by     *)
(* `tlc -simulate` and replayed on the real classes by the harness         *)
(* (harness/edges.py programs_from_mech_histories).  The concrete calls    *)
(* are: NewStr -> construction / fromstring from a literal or token string *)
(* (two keys, one of which reads options.mxfp_overflow), NewFromObj ->     *)
(* Cls(src), NewBitsKw -> Cls(bits=src), Mutate -> an in-place change,     *)
(* ToBitarray / HeldMutate -> tobitarray() and a change of the returned    *)
(* bitarray, SetOpt -> the option.  Trace.tla then judges every recorded   *)
(* event against the reference semantics, i.e. checks on the real code     *)
(* what ImmutableConst / OnlyTargetChanges / PureConstruction say of the   *)
(* model.                                                                  *)
(***************************************************************************)
EXTENDS Mech, Json
CONSTANT Depth
VARIABLE hist
svars == <<vars, hist>>

SimInit == Init /\ hist = <<>>
Log(r) == hist' = Append(hist, r)

SimNext ==
  \/ /\ Len(hist) < Depth
     /\ \/ \E o \in Obj, c \in Cls, k \in Key, fs \in BOOLEAN :
             NewStr(o, c, k, fs) /\ Log([a |-> "newstr", o |-> o, c |-> c, k |-> k, fs |-> fs])
        \/ \E o \in Obj, c \in Cls, src \in Obj :
             NewFromObj(o, c, src) /\ Log([a |-> "newobj", o |-> o, c |-> c, src |-> src])
        \/ \E o \in Obj, c \in Cls, src \in Obj :
             NewBitsKw(o, c, src) /\ Log([a |-> "bitskw", o |-> o, c |-> c, src |-> src])
        \/ \E o \in Obj, v \in Val : Mutate(o, v) /\ Log([a |-> "mutate", o |-> o])
        \/ \E o \in Obj : ToBitarray(o) /\ Log([a |-> "tobitarray", o |-> o, st |-> IF held' = held THEN "" ELSE CHOOSE s \in held' \ held : TRUE])
        \/ \E s \in Store, v \in Val : HeldMutate(s, v) /\ Log([a |-> "heldmutate", st |-> s])
        \/ \E b \in BOOLEAN : SetOpt(b) /\ Log([a |-> "setopt", b |-> b])
  \/ /\ Len(hist) = Depth
     /\ PrintT(<<"HIST", ToJson(hist)>>)
     /\ Log([a |-> "done"])
     /\ UNCHANGED vars

SimSpec == SimInit /\ [][SimNext]_svars
=============================================================================
