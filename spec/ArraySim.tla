------------------------------ MODULE ArraySim ------------------------------
(***************************************************************************)
(* Role B for the Array machine of MC_Array.tla: behaviours (initial Array *)
(* and a sequence of list operations with all their arguments) printed by  *)
(* `tlc -simulate` and replayed on the real Array class; Trace.tla judges  *)
(* every recorded event against ArrayStep.                                 *)
(***************************************************************************)
EXTENDS MC_Array, Json
CONSTANT Depth
VARIABLE hist
SimInit == Init /\ hist = [init |-> a, calls |-> <<>>, done |-> FALSE]
SimNext ==
  \/ /\ Len(hist.calls) < Depth
     /\ Next
     /\ hist' = [hist EXCEPT !.calls = Append(@, last'.call)]
  \/ /\ Len(hist.calls) = Depth /\ ~hist.done
     /\ PrintT(<<"HIST", ToJson([init |-> hist.init, calls |-> hist.calls])>>)
     /\ hist' = [hist EXCEPT !.done = TRUE]
     /\ UNCHANGED vars
SimSpec == SimInit /\ [][SimNext]_<<vars, hist>>
=============================================================================
