SPECIFICATION GenSpec
CONSTANT K = 3
CHECK_DEADLOCK FALSE
INVARIANT LengthIsSum
INVARIANT UnpackInvertsPack
INVARIANT Composes
INVARIANT WrongCountRefused
INVARIANT NonFittingRefused
