----------------------------- MODULE Bitstring -----------------------------
(***************************************************************************)
(* Reference semantics ("Ref") of the bitstring package.                   *)
(*                                                                         *)
(* State: objs - the live bitstring objects, id |-> [c, v, p]              *)
(*               c class name, v bit sequence (s.bin), p stream position   *)
(*               (-1 for the classes without one);                         *)
(*        opts - the module options [lsb0, ba, mx].                        *)
(*                                                                         *)
(* One public call of the library is one step.  Step(objs, opts, call) is  *)
(* the outcome the twenty properties demand for that call: return values,  *)
(* new value of every object that may change, exception category.  Where   *)
(* the properties are silent the outcome is left open (k = "ok?" - may     *)
(* raise a documented exception instead; free - unconstrained parts).      *)
(*                                                                         *)
(* The same operator is used three ways: MC_*.tla explore it exhaustively  *)
(* over small domains, Gen_*.tla enumerate calls to replay into the code,  *)
(* and Trace.tla evaluates it on every event recorded from the code.       *)
(*                                                                         *)
(* LSB0: every position-taking operation is *defined* as the msb0          *)
(* operation on the bit-reversed operands, reversed back (property C12).   *)
(***************************************************************************)
EXTENDS BitSeq, TLC

ClsCode(c) == CASE c = "Bits" -> 1 [] c = "BitArray" -> 2
                [] c = "ConstBitStream" -> 3 [] c = "BitStream" -> 4 [] OTHER -> 0
CodeCls(k) == CASE k = 1 -> "Bits" [] k = 2 -> "BitArray"
                [] k = 3 -> "ConstBitStream" [] k = 4 -> "BitStream" [] OTHER -> "?"
Classes == {"Bits", "BitArray", "ConstBitStream", "BitStream"}
IsStream(c) == c \in {"ConstBitStream", "BitStream"}
IsMutable(c) == c \in {"BitArray", "BitStream"}

\* Encoded values (see harness/enc.py)
VNone == <<0>>
VBool(b) == <<1, IF b THEN 1 ELSE 0>>
VSmall(i) == <<9, i>>
VBools(s) == <<10>> \o s
VInts(q) == <<11>> \o q
VBytes(q) == <<7>> \o q
VObj(c, v, p) == <<8, ClsCode(c), p, Len(v)>> \o v
\* a freshly returned bitstring of class c: streams start at position 0
VNew(c, v) == VObj(c, v, IF IsStream(c) THEN 0 ELSE -1)
IsVObj(val) == Len(val) >= 4 /\ val[1] = 8
ObjOfVal(val) == [c |-> CodeCls(val[2]), v |-> SubSeq(val, 5, Len(val)), p |-> val[3]]

Rec(c, v, p) == [c |-> c, v |-> v, p |-> p]
NoUpd == [x \in {} |-> 0]
One(id, r) == [x \in {id} |-> r]

(* Result constructors.                                                    *)
(*  k     "ok" | "raise" | "ok?" (as ok, or may raise a documented error   *)
(*        leaving everything unchanged)                                    *)
(*  exc   acceptable exception categories; "*" = any documented type       *)
(*  vals  expected return values; alias[i] says whether returned object i  *)
(*        must be fresh (""), must be an existing object (its id), or may  *)
(*        be either ("?")                                                  *)
(*  upd   expected new state of changed existing objects                   *)
(*  alt   alternative acceptable new states (id |-> set of records)        *)
(*  free  subset of {"vals", "upd", "pos"}: parts left unconstrained       *)
Res(k, exc, vals, alias, upd, alt, free) ==
  [k |-> k, exc |-> exc, vals |-> vals, alias |-> alias, upd |-> upd, alt |-> alt, free |-> free, arr |-> <<>>, pred |-> ""]
Ok(vals, alias, upd) == Res("ok", {}, vals, alias, upd, NoUpd, {})
OkV(val) == Ok(<<val>>, <<"">>, NoUpd)
OkNone(upd) == Ok(<<VNone>>, <<"">>, upd)
Raises(excs) == Res("raise", excs, <<>>, <<>>, NoUpd, NoUpd, {})
MayRaise(r) == [r EXCEPT !.k = "ok?", !.exc = {"*"}]
Unconstrained == Res("ok?", {"*"}, <<>>, <<>>, NoUpd, NoUpd, {"vals", "upd", "pos"})
AnyDoc == {"*"}

\* the bits denoted by an operand
XV(objs, x) == IF x.k = "obj" THEN objs[x.id].v ELSE x.v

\* mirror combinators for LSB0
Mir(lsb0, s) == IF lsb0 THEN Rev(s) ELSE s

\* validated [start, end) window as in Bits._validate_slice
WinStart(n, a) == IF IsNone(a) THEN 0 ELSE IF a < 0 THEN a + n ELSE a
WinEnd(n, b) == IF IsNone(b) THEN n ELSE IF b < 0 THEN b + n ELSE b
WinOK(n, a, b) == 0 <= WinStart(n, a) /\ WinStart(n, a) <= WinEnd(n, b) /\ WinEnd(n, b) <= n

\* position of a stream after an operation that changed the length or not
PosAfterLenChange(o, newv) == IF ~IsStream(o.c) THEN -1 ELSE IF Len(newv) # Len(o.v) THEN 0 ELSE o.p

---------------------------------------------------------------------------
(* C01 - sequence behaviour                                                *)

DoLen(o) == OkV(VSmall(Len(o.v)))
DoBool(o) == OkV(VBool(Len(o.v) # 0))
\* iteration yields s[0], s[1], ... so it follows the bit numbering mode like indexing does
DoIter(o, lsb0) == OkV(VBools(Mir(lsb0, o.v)))

DoGetItem(o, lsb0, i) ==
  IF IndexValid(Len(o.v), i) THEN OkV(VBool(GetIdx(Mir(lsb0, o.v), i) = 1))
  ELSE Raises({"IndexError"})

DoGetSlice(o, lsb0, a, b, c) ==
  IF c = 0 THEN Raises({"ValueError"})
  ELSE OkV(VNew(o.c, Mir(lsb0, PySlice(Mir(lsb0, o.v), a, b, c))))

\* x is the resolved operand record; the result has the class of the left
\* operand when that is a bitstring, otherwise of the bitstring operand
DoAdd(o, xv) == OkV(VNew(o.c, o.v \o xv))
DoRAdd(o, x, xv) ==
  OkV(VNew(IF x.kind \in Classes THEN x.kind ELSE o.c, xv \o o.v))
DoMul(o, n) ==
  IF n < 0 THEN Raises({"ValueError"}) ELSE OkV(VNew(o.c, Repeat(o.v, n)))

---------------------------------------------------------------------------
(* C16 - bit-wise operators and shifts                                     *)

DoInv(o) == IF Len(o.v) = 0 THEN Raises({"Error"}) ELSE OkV(VNew(o.c, NotB(o.v)))

BinB(opn, s, t) == CASE opn = "and" -> AndB(s, t) [] opn = "or" -> OrB(s, t) [] opn = "xor" -> XorB(s, t)
DoBin(opn, o, xv) ==
  IF Len(xv) # Len(o.v) THEN Raises({"ValueError"}) ELSE OkV(VNew(o.c, BinB(opn, o.v, xv)))
\* reflected form  x op o : the left operand x is not one of the tracked objects.  If it is a
\* bitstring the result has its class; a bitarray.bitarray on the left refuses the operation
\* itself (TypeError from the bitarray package), which is outside bitstring's contract.
DoRBin(opn, o, x, xv) ==
  IF x.kind = "bitarray" THEN Unconstrained
  ELSE IF Len(xv) # Len(o.v) THEN Raises({"ValueError"})
  ELSE OkV(VNew(IF x.kind \in Classes THEN x.kind ELSE o.c, BinB(opn, xv, o.v)))

DoShift(left, o, n) ==
  IF n < 0 \/ Len(o.v) = 0 THEN Raises({"ValueError"})
  ELSE OkV(VNew(o.c, IF left THEN Shl(o.v, n) ELSE Shr(o.v, n)))

---------------------------------------------------------------------------
(* C03 - in-place mutations.  t is the target id, o = objs[t].             *)

\* in-place operators return the target itself
InPlace(t, o, newv, newp) == Ok(<<VObj(o.c, newv, newp)>>, <<t>>, One(t, Rec(o.c, newv, newp)))
Mutated(t, o, newv, newp) == OkNone(One(t, Rec(o.c, newv, newp)))
KeepPos(o, newv) == IF ~IsStream(o.c) THEN -1 ELSE IF o.p <= Len(newv) THEN o.p ELSE 0

DoIAdd(t, o, lsb0, xv) ==
  LET nv == Mir(lsb0, Mir(lsb0, o.v) \o Mir(lsb0, xv)) IN
  InPlace(t, o, nv, IF IsStream(o.c) THEN Len(nv) ELSE -1)
DoAppend(t, o, lsb0, xv) ==
  LET nv == Mir(lsb0, Mir(lsb0, o.v) \o Mir(lsb0, xv)) IN
  Mutated(t, o, nv, IF IsStream(o.c) THEN Len(nv) ELSE -1)
DoPrepend(t, o, lsb0, xv) ==
  LET nv == Mir(lsb0, Mir(lsb0, xv) \o Mir(lsb0, o.v)) IN
  Mutated(t, o, nv, IF IsStream(o.c) THEN 0 ELSE -1)

DoIMul(t, o, n) ==
  IF n < 0 THEN Raises({"ValueError"})
  ELSE LET nv == Repeat(o.v, n) IN InPlace(t, o, nv, KeepPos(o, nv))

DoIShift(left, t, o, n) ==
  IF n < 0 \/ Len(o.v) = 0 THEN Raises({"ValueError"})
  ELSE InPlace(t, o, IF left THEN Shl(o.v, n) ELSE Shr(o.v, n), o.p)

DoIBin(opn, t, o, xv) ==
  IF Len(xv) # Len(o.v) THEN Raises({"ValueError"}) ELSE InPlace(t, o, BinB(opn, o.v, xv), o.p)

\* insert / overwrite: p = NoneI means "at the current position" (streams only)
DoInsert(t, o, lsb0, xv, p0) ==
  LET n == Len(o.v)
      p1 == IF IsNone(p0) THEN o.p ELSE p0
      p == IF p1 < 0 THEN p1 + n ELSE p1 IN
  IF IsNone(p0) /\ ~IsStream(o.c) THEN Raises(AnyDoc)      \* (no property names the exception type here)
  ELSE IF Len(xv) = 0 THEN
       (IF 0 <= p /\ p <= n THEN Mutated(t, o, o.v, o.p) ELSE MayRaise(Mutated(t, o, o.v, o.p)))
  ELSE IF ~(0 <= p /\ p <= n) THEN Raises(AnyDoc)
  ELSE Mutated(t, o, Mir(lsb0, InsAt(Mir(lsb0, o.v), Mir(lsb0, xv), p)),
               IF IsStream(o.c) THEN p + Len(xv) ELSE -1)

DoOverwrite(t, o, lsb0, xv, p0) ==
  LET n == Len(o.v)
      p1 == IF IsNone(p0) THEN o.p ELSE p0
      p == IF p1 < 0 THEN p1 + n ELSE p1 IN
  IF IsNone(p0) /\ ~IsStream(o.c) THEN Raises(AnyDoc)      \* (no property names the exception type here)
  ELSE IF Len(xv) = 0 THEN
       (IF 0 <= p /\ p <= n THEN Mutated(t, o, o.v, o.p) ELSE MayRaise(Mutated(t, o, o.v, o.p)))
  ELSE IF ~(0 <= p /\ p <= n) THEN Raises(AnyDoc)
  ELSE Mutated(t, o, Mir(lsb0, OvwAt(Mir(lsb0, o.v), Mir(lsb0, xv), p)),
               IF IsStream(o.c) THEN p + Len(xv) ELSE -1)

DoDelItem(t, o, lsb0, i) ==
  LET n == Len(o.v) IN
  IF ~IndexValid(n, i) THEN Raises(AnyDoc)
  ELSE LET k == NormIndex(n, i)
           nv == Mir(lsb0, DeleteRange(Mir(lsb0, o.v), k, k + 1)) IN
       Mutated(t, o, nv, PosAfterLenChange(o, nv))

DoDelSlice(t, o, lsb0, a, b, c) ==
  IF c = 0 THEN Raises(AnyDoc)
  ELSE LET nv == Mir(lsb0, DelSlice(Mir(lsb0, o.v), a, b, c)) IN
       Mutated(t, o, nv, PosAfterLenChange(o, nv))

\* s[i] = integer
DoSetItemInt(t, o, lsb0, i, neg, mag) ==
  LET n == Len(o.v)
      isZero == mag = <<>>
      isOne == mag = <<1>> IN
  IF ~(isZero \/ isOne) THEN Raises(AnyDoc)
  ELSE IF ~IndexValid(n, i) THEN Raises(AnyDoc)
  ELSE Mutated(t, o, Mir(lsb0, SetBitAt(Mir(lsb0, o.v), NormIndex(n, i), IF isZero THEN 0 ELSE 1)), o.p)

\* s[i] = bitstring : the single bit is replaced by the whole operand
DoSetItemBits(t, o, lsb0, i, xv) ==
  LET n == Len(o.v) IN
  IF ~IndexValid(n, i) THEN Raises(AnyDoc)
  ELSE LET k == NormIndex(n, i)
           m == Mir(lsb0, o.v)
           nv == Mir(lsb0, Sub(m, 0, k) \o Mir(lsb0, xv) \o Sub(m, k + 1, n)) IN
       Mutated(t, o, nv, PosAfterLenChange(o, nv))

DoSetSliceBits(t, o, lsb0, a, b, c, xv) ==
  IF c = 0 THEN Raises(AnyDoc)
  ELSE IF IsNone(c) \/ c = 1 THEN
       LET nv == Mir(lsb0, SetSlice1(Mir(lsb0, o.v), a, b, Mir(lsb0, xv))) IN
       Mutated(t, o, nv, PosAfterLenChange(o, nv))
  ELSE IF SliceLen(Len(o.v), a, b, c) # Len(xv) THEN Raises(AnyDoc)
  ELSE Mutated(t, o, Mir(lsb0, SetSliceExt(Mir(lsb0, o.v), a, b, c, Mir(lsb0, xv))), o.p)

\* does the integer (neg, magnitude bits) fit in w bits (uint if >= 0, int if < 0)
MagIsPow2(mag) == Len(mag) >= 1 /\ \A i \in 2..Len(mag) : mag[i] = 0
FitsInt(neg, mag, w) ==
  IF neg = 0 THEN Len(mag) <= w
  ELSE Len(mag) < w \/ (Len(mag) = w /\ MagIsPow2(mag))
\* two's complement encoding of (neg, mag) in w bits, assuming it fits
PadLeft(mag, w) == Zeros(w - Len(mag)) \o mag
LowestSet(q) == Max({i \in 1..Len(q) : q[i] = 1})
TwosNeg(q) == LET k == LowestSet(q) IN [i \in 1..Len(q) |-> IF i < k THEN 1 - q[i] ELSE q[i]]
EncInt(neg, mag, w) == IF neg = 0 \/ mag = <<>> THEN PadLeft(mag, w) ELSE TwosNeg(PadLeft(mag, w))

DoSetSliceInt(t, o, lsb0, a, b, c, neg, mag) ==
  LET n == Len(o.v) IN
  IF c = 0 THEN Raises(AnyDoc)
  ELSE IF IsNone(c) \/ c = 1 THEN
       LET w == SliceLen(n, a, b, 1) IN
       IF w = 0 \/ ~FitsInt(neg, mag, w) THEN Raises(AnyDoc)
       ELSE Mutated(t, o, Mir(lsb0, SetSlice1(Mir(lsb0, o.v), a, b, Mir(lsb0, EncInt(neg, mag, w)))), o.p)
  ELSE IF c = -1 THEN Unconstrained
  ELSE IF neg = 0 /\ (mag = <<>> \/ mag = <<1>>) THEN
       Mutated(t, o, Mir(lsb0, SetSliceBit(Mir(lsb0, o.v), a, b, c, IF mag = <<>> THEN 0 ELSE 1)), o.p)
  ELSE Raises(AnyDoc)

DoReverse(t, o, lsb0, a, b) ==
  LET n == Len(o.v) IN
  IF ~WinOK(n, a, b) THEN Raises(AnyDoc)
  ELSE Mutated(t, o, Mir(lsb0, ReverseRange(Mir(lsb0, o.v), WinStart(n, a), WinEnd(n, b))), o.p)

\* rotations keep their direction relative to the stored order; only the
\* window is mirrored under lsb0
DoRot(left, t, o, lsb0, k, a, b) ==
  LET n == Len(o.v) IN
  IF n = 0 THEN Raises(AnyDoc)
  ELSE IF k < 0 THEN Raises(AnyDoc)
  ELSE IF ~WinOK(n, a, b) THEN Raises(AnyDoc)
  ELSE LET ws == WinStart(n, a)
           we == WinEnd(n, b)
           s0 == IF lsb0 THEN n - we ELSE ws
           e0 == IF lsb0 THEN n - ws ELSE we IN
       IF ws = we THEN MayRaise(Mutated(t, o, o.v, o.p))
       ELSE Mutated(t, o, IF left THEN RolRange(o.v, k, s0, e0) ELSE RorRange(o.v, k, s0, e0), o.p)

\* set / invert over a sequence of positions applied in order; an invalid
\* position raises and the valid ones before it may already have been applied
ApplyPositions(s, ps, flip, v) ==
  FoldLeft(LAMBDA acc, p : IF flip THEN FlipBitAt(acc, NormIndex(Len(s), p))
                                   ELSE SetBitAt(acc, NormIndex(Len(s), p), v), s, ps)
FirstBad(n, ps) == IF \A i \in 1..Len(ps) : IndexValid(n, ps[i]) THEN 0
                   ELSE Min({i \in 1..Len(ps) : ~IndexValid(n, ps[i])})
DoSetPositions(t, o, lsb0, ps, flip, v) ==
  LET n == Len(o.v)
      bad == FirstBad(n, ps)
      m == Mir(lsb0, o.v) IN
  IF bad = 0 THEN Mutated(t, o, Mir(lsb0, ApplyPositions(m, ps, flip, v)), o.p)
  ELSE [Raises(AnyDoc) EXCEPT !.alt =
          One(t, {Rec(o.c, Mir(lsb0, ApplyPositions(m, SubSeq(ps, 1, bad - 1), flip, v)), o.p)})]

RangeSeq(a, b, c) ==
  LET cnt == IF c > 0 THEN (IF a < b THEN (b - a - 1) \div c + 1 ELSE 0)
             ELSE (IF a > b THEN (a - b - 1) \div (-c) + 1 ELSE 0) IN
  [i \in 1..cnt |-> a + (i - 1) * c]

\* set(v) on an empty bitstring: nothing to set; the shipped code refuses with ValueError, which
\* the properties do not exclude
DoSetAll(t, o, v) ==
  IF Len(o.v) = 0 THEN MayRaise(Mutated(t, o, o.v, o.p)) ELSE Mutated(t, o, [i \in 1..Len(o.v) |-> v], o.p)
DoInvertAll(t, o) == Mutated(t, o, NotB(o.v), o.p)

DoByteSwap(t, o, lsb0, sizes, a, b, repeat) ==
  LET n == Len(o.v) IN
  IF ~WinOK(n, a, b) THEN Raises(AnyDoc)
  ELSE IF \E i \in 1..Len(sizes) : sizes[i] < 0 THEN Raises(AnyDoc)
  ELSE LET ws == WinStart(n, a)
           we == WinEnd(n, b) IN
       Ok(<<VSmall(ByteSwapReps(sizes, ws, we, repeat))>>, <<"">>,
          One(t, Rec(o.c, Mir(lsb0, ByteSwap(Mir(lsb0, o.v), sizes, ws, we, repeat)), o.p)))

DoClear(t, o) == Mutated(t, o, <<>>, IF IsStream(o.c) THEN 0 ELSE -1)

---------------------------------------------------------------------------
(* C07 - searching.  ba3 is the explicit bytealigned argument: NoneI (use  *)
(* the option), 0 or 1.                                                    *)

BA(opts, ba3) == IF IsNone(ba3) THEN opts.ba ELSE ba3 = 1

\* all matches in lsb0 or msb0 coordinates, as a set of positions
MatchSet(v, lsb0, pat, ws, we, ba) == Matches(Mir(lsb0, v), Mir(lsb0, pat), ws, we, ba)

FindRes(o, t, p) ==
  IF IsStream(o.c) THEN Ok(<<VInts(<<p>>)>>, <<"">>, One(t, Rec(o.c, o.v, p)))
  ELSE OkV(VInts(<<p>>))

DoFind(first, t, o, opts, pat, a, b, ba3) ==
  LET n == Len(o.v) IN
  IF Len(pat) = 0 \/ ~WinOK(n, a, b) THEN Raises({"ValueError"})
  ELSE LET ms == MatchSet(o.v, opts.lsb0, pat, WinStart(n, a), WinEnd(n, b), BA(opts, ba3)) IN
       IF ms = {} THEN OkV(VInts(<<>>))
       ELSE FindRes(o, t, IF first THEN Min(ms) ELSE Max(ms))

DoFindAll(o, opts, pat, a, b, cnt, ba3) ==
  LET n == Len(o.v) IN
  IF Len(pat) = 0 \/ ~WinOK(n, a, b) \/ (~IsNone(cnt) /\ cnt < 0) THEN Raises({"ValueError"})
  ELSE LET ms == MatchSet(o.v, opts.lsb0, pat, WinStart(n, a), WinEnd(n, b), BA(opts, ba3)) IN
       OkV(VInts(TakeUpTo(SetToSortSeq(ms, <), cnt)))

\* `in` never uses byte alignment and never moves a stream position
DoContains(o, opts, pat) ==
  IF Len(pat) = 0 THEN Raises({"ValueError"})
  ELSE OkV(VBool(Matches(o.v, pat, 0, Len(o.v), FALSE) # {}))

DoStartsWith(o, lsb0, pat, a, b) ==
  LET n == Len(o.v) IN
  IF ~WinOK(n, a, b) THEN Raises({"ValueError"})
  ELSE LET ws == WinStart(n, a)  we == WinEnd(n, b) IN
       OkV(VBool(ws + Len(pat) <= we /\ OccursAt(Mir(lsb0, o.v), Mir(lsb0, pat), ws)))

DoEndsWith(o, lsb0, pat, a, b) ==
  LET n == Len(o.v) IN
  IF ~WinOK(n, a, b) THEN Raises({"ValueError"})
  ELSE LET ws == WinStart(n, a)  we == WinEnd(n, b) IN
       OkV(VBool(ws + Len(pat) <= we /\ OccursAt(Mir(lsb0, o.v), Mir(lsb0, pat), we - Len(pat))))

DoCount(o, val) == OkV(VSmall(CountBit(o.v, IF val # 0 THEN 1 ELSE 0)))

DoCut(o, lsb0, bits, a, b, cnt) ==
  LET n == Len(o.v) IN
  IF bits <= 0 THEN Raises(AnyDoc)
  ELSE IF ~WinOK(n, a, b) \/ (~IsNone(cnt) /\ cnt < 0) THEN Raises({"ValueError"})
  ELSE LET ws == WinStart(n, a)  we == WinEnd(n, b)
           full == CeilDiv(we - ws, bits)
           k == IF IsNone(cnt) THEN full ELSE MinI(cnt, full)
           m == Mir(lsb0, o.v)
           vals == [i \in 1..k |->
                      VNew(o.c, Mir(lsb0, Sub(m, ws + (i - 1) * bits, MinI(ws + i * bits, we))))] IN
       Ok(vals, [i \in 1..k |-> ""], NoUpd)

\* successive non-overlapping delimiter matches from the left inside [ws,we)
DoSplit(o, opts, delim, a, b, cnt, ba3) ==
  LET n == Len(o.v) IN
  IF Len(delim) = 0 \/ ~WinOK(n, a, b) \/ (~IsNone(cnt) /\ cnt < 0) THEN Raises({"ValueError"})
  ELSE IF opts.lsb0 THEN Unconstrained
  ELSE LET ws == WinStart(n, a)  we == WinEnd(n, b)
           ms == NonOverlapping(Matches(o.v, delim, ws, we, BA(opts, ba3)), Len(delim))
           \* pieces: [ws, m1), [m1, m2), ..., [mk, we)
           cuts == <<ws>> \o ms \o <<we>>
           npieces == Len(ms) + 1
           k == IF IsNone(cnt) THEN npieces ELSE MinI(cnt, npieces)
           vals == [i \in 1..k |-> VNew(o.c, Sub(o.v, cuts[i], cuts[i + 1]))] IN
       Ok(vals, [i \in 1..k |-> ""], NoUpd)

DoReplace(t, o, opts, old, new, a, b, cnt, ba3) ==
  LET n == Len(o.v) IN
  IF ~IsNone(cnt) /\ cnt = 0 THEN OkV(VSmall(0))
  ELSE IF Len(old) = 0 \/ ~WinOK(n, a, b) THEN Raises({"ValueError"})
  ELSE IF ~IsNone(cnt) /\ cnt < 0 THEN Unconstrained
  ELSE LET lsb0 == opts.lsb0
           m == Mir(lsb0, o.v)
           ms == TakeUpTo(NonOverlapping(Matches(m, Mir(lsb0, old), WinStart(n, a), WinEnd(n, b),
                                                 BA(opts, ba3)), Len(old)), cnt)
           nv == Mir(lsb0, ReplAt(m, ms, Len(old), Mir(lsb0, new))) IN
       Ok(<<VSmall(Len(ms))>>, <<"">>, One(t, Rec(o.c, nv, PosAfterLenChange(o, nv))))

DoAllAny(isAll, o, lsb0, val, hasPos, ps) ==
  LET want == IF val # 0 THEN 1 ELSE 0
      n == Len(o.v)
      m == Mir(lsb0, o.v) IN
  IF ~hasPos THEN
     OkV(VBool(IF isAll THEN \A i \in 1..n : o.v[i] = want ELSE \E i \in 1..n : o.v[i] = want))
  ELSE
     \* positions are examined in order; evaluation stops at the first deciding one,
     \* an invalid position reached before that raises IndexError
     LET decides(i) == IF isAll THEN GetIdx(m, ps[i]) # want ELSE GetIdx(m, ps[i]) = want
         stopAt == {i \in 1..Len(ps) : ~IndexValid(n, ps[i]) \/ decides(i)} IN
     IF stopAt = {} THEN OkV(VBool(isAll))
     ELSE LET i == Min(stopAt) IN
          IF ~IndexValid(n, ps[i]) THEN Raises(AnyDoc) ELSE OkV(VBool(~isAll))

DoJoin(o, parts) ==
  LET k == Len(parts)
      pieces == [i \in 1..(IF k = 0 THEN 0 ELSE 2 * k - 1) |->
                   IF i % 2 = 1 THEN parts[(i + 1) \div 2] ELSE o.v] IN
  OkV(VNew(o.c, FoldLeft(LAMBDA acc, x : acc \o x, <<>>, pieces)))

---------------------------------------------------------------------------
(* C06 - stream position                                                   *)

DoGetPos(o, which) ==
  IF ~IsStream(o.c) THEN Raises({"*", "Internal"})
  ELSE IF which = "bytepos" THEN
       (IF o.p % 8 # 0 THEN Raises(AnyDoc) ELSE OkV(VSmall(o.p \div 8)))
  ELSE OkV(VSmall(o.p))

DoSetPos(t, o, which, p0) ==
  LET p == IF which = "bytepos" THEN p0 * 8 ELSE p0 IN
  IF ~IsStream(o.c) THEN Raises({"*", "Internal"})
  ELSE IF p < 0 \/ p > Len(o.v) THEN Raises(AnyDoc)
  ELSE OkNone(One(t, Rec(o.c, o.v, p)))

DoByteAlign(t, o) ==
  LET skip == (8 - (o.p % 8)) % 8 IN
  IF o.p + skip > Len(o.v) THEN Raises(AnyDoc)
  ELSE Ok(<<VSmall(skip)>>, <<"">>, One(t, Rec(o.c, o.v, o.p + skip)))

\* read(n) / peek(n) with an integer: the next n bits as a new stream object
DoReadBits(t, o, lsb0, nb, advance) ==
  IF nb < 0 THEN Raises(AnyDoc)
  ELSE IF nb > Len(o.v) - o.p THEN Raises({"ReadError"})
  ELSE LET w == Mir(lsb0, Sub(Mir(lsb0, o.v), o.p, o.p + nb)) IN
       Ok(<<VNew(o.c, w)>>, <<"">>, IF advance THEN One(t, Rec(o.c, o.v, o.p + nb)) ELSE NoUpd)

\* readlist / peeklist with a list of integer lengths
PrefixSum(q, i) == SumSeq(SubSeq(q, 1, i))
DoReadListBits(t, o, lsb0, ns, advance) ==
  IF \E i \in 1..Len(ns) : ns[i] < 0 THEN Raises(AnyDoc)
  ELSE IF SumSeq(ns) > Len(o.v) - o.p THEN Raises({"ReadError"})
  ELSE LET m == Mir(lsb0, o.v)
           vals == [i \in 1..Len(ns) |->
                      VNew(o.c, Mir(lsb0, Sub(m, o.p + PrefixSum(ns, i - 1), o.p + PrefixSum(ns, i))))] IN
       Ok(vals, [i \in 1..Len(ns) |-> ""],
          IF advance THEN One(t, Rec(o.c, o.v, o.p + SumSeq(ns))) ELSE NoUpd)

DoReadTo(t, o, opts, pat, ba3) ==
  IF Len(pat) = 0 THEN Raises({"ValueError"})
  ELSE IF opts.lsb0 THEN Unconstrained
  ELSE LET ms == Matches(o.v, pat, o.p, Len(o.v), BA(opts, ba3)) IN
       IF ms = {} THEN Raises({"ReadError"})
       ELSE LET e == Min(ms) + Len(pat) IN
            Ok(<<VNew(o.c, Sub(o.v, o.p, e))>>, <<"">>, One(t, Rec(o.c, o.v, e)))

---------------------------------------------------------------------------
(* C13 / C04 - comparison, hashing, copies                                 *)

DoEq(o, xv, negate) == OkV(VBool((o.v = xv) # negate))
DoEqPy(negate) == OkV(VBool(negate))
\* equal immutable bitstrings hash equal (unequal ones may collide); the mutable classes are unhashable
DoHashEq(o, xv) == IF IsMutable(o.c) THEN Raises({"TypeError"})
                   ELSE IF o.v = xv THEN OkV(VBool(TRUE))
                   ELSE [OkV(VBool(FALSE)) EXCEPT !.free = {"vals"}]
DoHashable(o) == OkV(VBool(~IsMutable(o.c)))
\* x in {t} and {t: 1}[x] == 1
DoInSet(o, xv) == IF IsMutable(o.c) THEN Raises({"TypeError"})
                  ELSE IF o.v = xv THEN OkV(VBool(TRUE)) ELSE OkV(VBool(FALSE))

\* copy: a new object for the mutable classes; the immutable ones may return
\* themselves.  copy.copy of a stream starts at position 0.
DoCopy(t, o, viaModule) ==
  IF IsMutable(o.c) THEN Ok(<<VNew(o.c, o.v)>>, <<"">>, NoUpd)
  ELSE [Ok(<<VNew(o.c, o.v)>>, <<"?">>, NoUpd) EXCEPT !.free = {"retpos"}]

DoToBytes(o, how) ==
  IF how = "prop" /\ Len(o.v) % 8 # 0 THEN Raises(AnyDoc)
  ELSE LET pb == PadToByte(o.v)
           nb == Len(pb) \div 8 IN
       OkV(VBytes([k \in 1..nb |-> UVal(Sub(pb, 8 * (k - 1), 8 * k))]))

---------------------------------------------------------------------------
(* Options                                                                 *)

SetOpt(opts, name, val) ==
  CASE name = "lsb0" -> [opts EXCEPT !.lsb0 = (val # 0)]
    [] name = "ba" -> [opts EXCEPT !.ba = (val # 0)]
    [] name = "mx" -> [opts EXCEPT !.mx = IF val # 0 THEN "overflow" ELSE "saturate"]
    [] OTHER -> opts

---------------------------------------------------------------------------
(* The step function over the core call alphabet.  Calls outside it are    *)
(* handled by the modules that extend this one (Codec, Format, ...).       *)

IntArg(call, i) == call.ia[i]
MagOf(val) == SubSeq(val, 3, Len(val))      \* magnitude bits of an encoded int <<2, neg, ...>>

CoreOps == {"mk", "len", "lenprop", "bool", "iter", "getitem", "getslice", "add", "radd", "mul", "rmul",
            "inv", "and", "or", "xor", "rand", "ror_", "rxor", "lshift", "rshift",
            "iadd", "imul", "ilshift", "irshift", "iand", "ior", "ixor", "append", "prepend",
            "insert", "overwrite", "delitem", "delslice", "setitem", "setslice", "replace",
            "reverse", "rol", "ror", "set", "invert", "byteswap", "clear",
            "copy_m", "copy_c", "eq", "ne", "eq_py", "hasheq", "hashable", "inset", "setopt",
            "getpos", "setpos", "bytealign", "readbits", "peekbits", "readlistbits", "peeklistbits",
            "readto", "find", "rfind", "findall", "contains", "startswith", "endswith", "count",
            "cut", "split", "all", "any", "join", "tobytes"}

MutatorOps == {"iadd", "imul", "ilshift", "irshift", "iand", "ior", "ixor", "append", "prepend",
               "insert", "overwrite", "delitem", "delslice", "setitem", "setslice", "replace",
               "reverse", "rol", "ror", "set", "invert", "byteswap", "clear"}
StreamOps == {"getpos", "setpos", "bytealign", "readbits", "peekbits", "readlistbits", "peeklistbits", "readto"}

\* positions argument of set / invert / all / any
PosKind(call) == call.sa[1]
PosList(call, from) ==
  LET q == SubSeq(call.ia, from, Len(call.ia)) IN
  IF PosKind(call) = "range" THEN RangeSeq(q[1], q[2], q[3]) ELSE q

CoreStep(objs, opts, call) ==
  LET op == call.op
      t == call.t
      o == objs[t]
      lsb0 == opts.lsb0
      x1 == call.xs[1]
      xv1 == XV(objs, call.xs[1])
      xv2 == XV(objs, call.xs[2])
      i1 == call.ia[1]  i2 == call.ia[2]  i3 == call.ia[3]  i4 == call.ia[4] IN
  CASE op = "mk" ->
         LET c == call.sa[1]
             p == IF IsStream(c) THEN OrElse(i1, 0) ELSE -1
             pp == IF p < 0 /\ IsStream(c) THEN p + Len(xv1) ELSE p IN
         IF IsStream(c) /\ (pp < 0 \/ pp > Len(xv1)) THEN Raises(AnyDoc)
         ELSE IF ~IsStream(c) /\ ~IsNone(i1) THEN Raises(AnyDoc)
         ELSE OkV(VObj(c, xv1, pp))
    [] op = "len" -> DoLen(o)
    [] op = "lenprop" -> DoLen(o)
    [] op = "bool" -> DoBool(o)
    [] op = "iter" -> DoIter(o, lsb0)
    [] op = "getitem" -> DoGetItem(o, lsb0, i1)
    [] op = "getslice" -> DoGetSlice(o, lsb0, i1, i2, i3)
    [] op = "add" -> DoAdd(o, xv1)
    [] op = "radd" -> DoRAdd(o, x1, xv1)
    [] op \in {"mul", "rmul"} -> DoMul(o, i1)
    [] op = "inv" -> DoInv(o)
    [] op = "and" -> DoBin("and", o, xv1)
    [] op = "or" -> DoBin("or", o, xv1)
    [] op = "xor" -> DoBin("xor", o, xv1)
    [] op = "rand" -> DoRBin("and", o, x1, xv1)
    [] op = "ror_" -> DoRBin("or", o, x1, xv1)
    [] op = "rxor" -> DoRBin("xor", o, x1, xv1)
    \* augmented assignment on an immutable class is ordinary Python: t = t op x
    [] op = "iadd" /\ ~IsMutable(o.c) -> DoAdd(o, xv1)
    [] op = "imul" /\ ~IsMutable(o.c) -> DoMul(o, i1)
    [] op = "ilshift" /\ ~IsMutable(o.c) -> DoShift(TRUE, o, i1)
    [] op = "irshift" /\ ~IsMutable(o.c) -> DoShift(FALSE, o, i1)
    [] op = "iand" /\ ~IsMutable(o.c) -> DoBin("and", o, xv1)
    [] op = "ior" /\ ~IsMutable(o.c) -> DoBin("or", o, xv1)
    [] op = "ixor" /\ ~IsMutable(o.c) -> DoBin("xor", o, xv1)
    [] op = "lshift" -> DoShift(TRUE, o, i1)
    [] op = "rshift" -> DoShift(FALSE, o, i1)
    [] op \in MutatorOps /\ ~IsMutable(o.c) -> Raises({"*", "Internal"})
    [] op \in StreamOps /\ ~IsStream(o.c) -> Raises({"*", "Internal"})
    [] op = "iadd" -> DoIAdd(t, o, lsb0, xv1)
    [] op = "append" -> DoAppend(t, o, lsb0, xv1)
    [] op = "prepend" -> DoPrepend(t, o, lsb0, xv1)
    [] op = "imul" -> DoIMul(t, o, i1)
    [] op = "ilshift" -> DoIShift(TRUE, t, o, i1)
    [] op = "irshift" -> DoIShift(FALSE, t, o, i1)
    [] op = "iand" -> DoIBin("and", t, o, xv1)
    [] op = "ior" -> DoIBin("or", t, o, xv1)
    [] op = "ixor" -> DoIBin("xor", t, o, xv1)
    [] op = "insert" -> DoInsert(t, o, lsb0, xv1, i1)
    [] op = "overwrite" -> DoOverwrite(t, o, lsb0, xv1, i1)
    [] op = "delitem" -> DoDelItem(t, o, lsb0, i1)
    [] op = "delslice" -> DoDelSlice(t, o, lsb0, i1, i2, i3)
    [] op = "setitem" ->
         IF Len(call.xs) > 0 THEN DoSetItemBits(t, o, lsb0, i1, xv1)
         ELSE DoSetItemInt(t, o, lsb0, i1, call.va[1][2], MagOf(call.va[1]))
    [] op = "setslice" ->
         IF Len(call.xs) > 0 THEN DoSetSliceBits(t, o, lsb0, i1, i2, i3, xv1)
         ELSE DoSetSliceInt(t, o, lsb0, i1, i2, i3, call.va[1][2], MagOf(call.va[1]))
    [] op = "replace" -> DoReplace(t, o, opts, xv1, xv2, i1, i2, i3, i4)
    [] op = "reverse" -> DoReverse(t, o, lsb0, i1, i2)
    [] op = "rol" -> DoRot(TRUE, t, o, lsb0, i1, i2, i3)
    [] op = "ror" -> DoRot(FALSE, t, o, lsb0, i1, i2, i3)
    [] op = "set" ->
         IF PosKind(call) = "none" THEN DoSetAll(t, o, IF i1 # 0 THEN 1 ELSE 0)
         ELSE DoSetPositions(t, o, lsb0, PosList(call, 2), FALSE, IF i1 # 0 THEN 1 ELSE 0)
    [] op = "invert" ->
         IF PosKind(call) = "none" THEN DoInvertAll(t, o)
         ELSE DoSetPositions(t, o, lsb0, PosList(call, 1), TRUE, 0)
    [] op = "byteswap" ->
         LET n == Len(o.v)
             sizes0 == SubSeq(call.ia, 4, Len(call.ia))
             whole == IF WinOK(n, i1, i2) THEN (WinEnd(n, i2) - WinStart(n, i1)) \div 8 ELSE 0
             sizes == IF call.sa[1] = "none" \/ (call.sa[1] = "int" /\ sizes0[1] = 0)
                        THEN <<whole>> ELSE sizes0 IN
         DoByteSwap(t, o, lsb0, sizes, i1, i2, IsNone(i3) \/ i3 = 1)
    [] op = "clear" -> DoClear(t, o)
    [] op = "copy_m" -> DoCopy(t, o, FALSE)
    [] op = "copy_c" -> DoCopy(t, o, TRUE)
    [] op = "eq" -> DoEq(o, xv1, FALSE)
    [] op = "ne" -> DoEq(o, xv1, TRUE)
    [] op = "eq_py" -> DoEqPy(i1 # 0)
    [] op = "hasheq" -> DoHashEq(o, xv1)
    [] op = "hashable" -> DoHashable(o)
    [] op = "inset" -> DoInSet(o, xv1)
    [] op = "setopt" -> OkV(VNone)
    [] op = "getpos" -> DoGetPos(o, IF Len(call.sa) > 0 THEN call.sa[1] ELSE "pos")
    [] op = "setpos" -> DoSetPos(t, o, IF Len(call.sa) > 0 THEN call.sa[1] ELSE "pos", i1)
    [] op = "bytealign" -> DoByteAlign(t, o)
    [] op = "readbits" -> DoReadBits(t, o, lsb0, i1, TRUE)
    [] op = "peekbits" -> DoReadBits(t, o, lsb0, i1, FALSE)
    [] op = "readlistbits" -> DoReadListBits(t, o, lsb0, call.ia, TRUE)
    [] op = "peeklistbits" -> DoReadListBits(t, o, lsb0, call.ia, FALSE)
    [] op = "readto" -> DoReadTo(t, o, opts, xv1, IF Len(call.ia) > 0 THEN i1 ELSE NoneI)
    [] op = "find" -> DoFind(TRUE, t, o, opts, xv1, i1, i2, i3)
    [] op = "rfind" -> DoFind(FALSE, t, o, opts, xv1, i1, i2, i3)
    [] op = "findall" -> DoFindAll(o, opts, xv1, i1, i2, i3, i4)
    [] op = "contains" -> DoContains(o, opts, xv1)
    [] op = "startswith" -> DoStartsWith(o, lsb0, xv1, i1, i2)
    [] op = "endswith" -> DoEndsWith(o, lsb0, xv1, i1, i2)
    [] op = "count" -> DoCount(o, i1)
    [] op = "cut" -> DoCut(o, lsb0, i1, i2, i3, i4)
    [] op = "split" -> DoSplit(o, opts, xv1, i1, i2, i3, i4)
    [] op = "all" -> DoAllAny(TRUE, o, lsb0, i1, PosKind(call) # "none", PosList(call, 2))
    [] op = "any" -> DoAllAny(FALSE, o, lsb0, i1, PosKind(call) # "none", PosList(call, 2))
    [] op = "join" -> DoJoin(o, [i \in 1..Len(call.xs) |-> XV(objs, call.xs[i])])
    [] op = "tobytes" -> DoToBytes(o, IF Len(call.sa) > 0 THEN call.sa[1] ELSE "tobytes")
    [] OTHER -> Unconstrained

\* options after the call
OptsAfter(opts, call) ==
  IF call.op = "setopt" THEN SetOpt(opts, call.sa[1], call.ia[1]) ELSE opts
=============================================================================
