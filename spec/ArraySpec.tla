------------------------------ MODULE ArraySpec ------------------------------
(***************************************************************************)
(* Array (C14): a Python list of fixed-width items over one contiguous     *)
(* bit buffer.  An Array object is [c |-> "Array", v |-> data bits,        *)
(* p |-> -1, dn |-> dtype name, dl |-> dtype length in units].  Item i     *)
(* occupies bits [i*w, (i+1)*w) with w = dl * unit; whatever follows the   *)
(* last whole item is the trailing bits.  List operations follow Python's  *)
(* list; element-wise operators map the Python operator over the items.    *)
(***************************************************************************)
EXTENDS Serial

ARec(dn, dl, v) == [c |-> "Array", v |-> v, p |-> -1, dn |-> Canon(dn), dl |-> dl]
ItemW(a) == a.dl * Unit(Canon(a.dn))
NItems(a) == IF ItemW(a) = 0 THEN 0 ELSE Len(a.v) \div ItemW(a)
ItemBits(a, i) == Sub(a.v, i * ItemW(a), (i + 1) * ItemW(a))          \* i is 0-based
Trailing(a) == Sub(a.v, NItems(a) * ItemW(a), Len(a.v))
\* items of a 'bits' Array are bitstring objects cut out of the (BitArray) data
ItemVal(a, i) == IF Canon(a.dn) = "bits" THEN VNew("BitArray", ItemBits(a, i)) ELSE DecodeDtype(a.dn, ItemBits(a, i)).val
ItemsOf(a) == [i \in 1..NItems(a) |-> ItemVal(a, i - 1)]
BodyBits(a) == Sub(a.v, 0, NItems(a) * ItemW(a))

\* value returned for a new Array object (the dtype travels in the arr field of the result)
VArr(dn, dl, v) == <<15, 0, -1, Len(v)>> \o v
IsVArr(val) == Len(val) >= 4 /\ val[1] = 15
OkArr(dn, dl, v) == [Ok(<<VArr(dn, dl, v)>>, <<"">>, NoUpd) EXCEPT !.arr = <<Canon(dn), dl>>]

\* encode a sequence of item values; [ok, bits]
EncItems(dn, dl, vals, mx) ==
  LET parts == [i \in 1..Len(vals) |-> EncodeDtypeM(dn, dl, vals[i], mx)] IN
  IF \E i \in 1..Len(vals) : ~parts[i].ok THEN Bad
  ELSE Good(FoldLeft(LAMBDA acc, q : acc \o q.bits, <<>>, parts))

DtypeOKForArray(dn, dl) == ~IsNone(dl) /\ dl >= 1 /\ Canon(dn) \notin GolombNames /\ LenAllowed(Canon(dn), dl)
                           /\ Canon(dn) \notin {"pad"}

\* Python list index helpers on item counts
ListIdxOK(n, i) == i >= -n /\ i < n
ListNorm(n, i) == IF i < 0 THEN i + n ELSE i

\* apply a list-level edit to the item region, keeping the trailing bits
Rebuild(a, itemBitsSeq) == FoldLeft(LAMBDA acc, q : acc \o q, <<>>, itemBitsSeq) \o Trailing(a)
ItemSeq(a) == [i \in 1..NItems(a) |-> ItemBits(a, i - 1)]

\* slice assignment / deletion on a sequence of item bit-blocks (Python list semantics)
SeqSlice(q, a, b, c) == LET ps == SlicePositions(Len(q), a, b, c) IN [i \in 1..Len(ps) |-> q[ps[i] + 1]]
SeqDelSlice(q, a, b, c) ==
  LET dead == SlicePosSet(Len(q), a, b, c)
      keep == SetToSortSeq({p \in 0..(Len(q) - 1) : p \notin dead}, <) IN
  [i \in 1..Len(keep) |-> q[keep[i] + 1]]
SeqSetSlice1(q, a, b, new) ==
  LET n == Len(q)
      st == SliceStart(n, a, 1)
      sp0 == SliceStop(n, b, 1)
      sp == IF sp0 < st THEN st ELSE sp0 IN
  SubSeq(q, 1, st) \o new \o SubSeq(q, sp + 1, n)
SeqSetSliceExt(q, a, b, c, new) ==
  LET ps == SlicePositions(Len(q), a, b, c) IN
  [i \in 1..Len(q) |-> IF \E k \in 1..Len(ps) : ps[k] = i - 1 THEN new[CHOOSE k \in 1..Len(ps) : ps[k] = i - 1] ELSE q[i]]

\* element-wise integer operators on small values (|result| < 2^30): value as TLC integer
SmallOf(val) == (IF IntNeg(val) = 1 THEN -1 ELSE 1) * UVal(IntMag(val))
IntValOf(i) == VInt(IF i < 0 THEN 1 ELSE 0, Strip(UBits(Abs(i), 30)))
IsIntDtype(dn) == Canon(dn) \in IntNames
SignedDtype(dn) == Canon(dn) \in SignedNames
ApplyInt(opn, x, y) ==
  CASE opn = "add" -> [ok |-> TRUE, v |-> x + y]
    [] opn = "sub" -> [ok |-> TRUE, v |-> x - y]
    [] opn = "mul" -> [ok |-> TRUE, v |-> x * y]
    [] opn = "floordiv" -> IF y > 0 THEN [ok |-> TRUE, v |-> x \div y] ELSE [ok |-> FALSE, v |-> 0]
    [] opn = "mod" -> IF y > 0 THEN [ok |-> TRUE, v |-> x % y] ELSE [ok |-> FALSE, v |-> 0]
    [] opn = "lshift" -> IF y >= 0 /\ y <= 8 THEN [ok |-> TRUE, v |-> x * Pow2(y)] ELSE [ok |-> FALSE, v |-> 0]
    [] opn = "rshift" -> IF y >= 0 /\ y <= 30 THEN [ok |-> TRUE, v |-> x \div Pow2(y)] ELSE [ok |-> FALSE, v |-> 0]
    [] opn = "neg" -> [ok |-> TRUE, v |-> -x]
    [] opn = "abs" -> [ok |-> TRUE, v |-> Abs(x)]
CmpInt(opn, x, y) ==
  CASE opn = "lt" -> x < y [] opn = "gt" -> x > y [] opn = "le" -> x <= y [] opn = "ge" -> x >= y
    [] opn = "eq" -> x = y [] opn = "ne" -> x # y
\* documented promotion between two integer dtypes: signed wins, then longer, then the first
Promote(a, b) ==
  IF Canon(a.dn) = Canon(b.dn) THEN (IF a.dl > b.dl THEN a ELSE b)
  ELSE IF SignedDtype(a.dn) /\ ~SignedDtype(b.dn) THEN a
  ELSE IF SignedDtype(b.dn) /\ ~SignedDtype(a.dn) THEN b
  ELSE IF b.dl > a.dl THEN b ELSE a

ArrayOps == {"anew", "anewdata", "alen", "agetitem", "agetslice", "asetitem", "asetslice", "adelitem", "adelslice",
             "aappend", "aextend", "ainsert", "apop", "areverse", "acount", "atolist", "aiter", "aequals", "acopy",
             "asetdtype", "abyteswap", "atobytes", "atofile", "atrailing", "adata", "aop", "aiop", "acmp", "abitop",
             "aunary", "aopa", "aextendarr", "afromarray", "aitemsize", "rawcall", "ascaled", "aastype", "afromfile", "aopf", "aiopf", "aopaf"}

ArrayStep(objs, opts, call) ==
  LET op == call.op
      t == call.t
      a == objs[t]
      n == NItems(a)
      w == ItemW(a)
      mx == opts.mx
      i1 == call.ia[1]  i2 == call.ia[2]  i3 == call.ia[3]
      Upd(v) == One(t, ARec(a.dn, a.dl, v)) IN
  CASE op = "rawcall" -> Unconstrained      \* C20: only the envelope clauses of Trace.tla apply
    [] op = "anew" ->
         \* sa = <<dtype name>>, ia = <<dtype length>>, va = items, xs = <<trailing bits>> (optional)
         LET dn == call.sa[1]  dl == call.ia[1]
             r == EncItems(dn, dl, call.va, mx)
             tr == IF Len(call.xs) > 0 THEN XV(objs, call.xs[1]) ELSE <<>> IN
         IF ~DtypeOKForArray(dn, dl) THEN Raises({"ValueError"})
         ELSE IF ~r.ok THEN Raises({"ValueError", "TypeError"})
         ELSE OkArr(dn, dl, r.bits \o tr)
    [] op = "anewdata" ->
         \* Array(dtype, <bits / bytes initialiser>): the data is taken as it is
         LET dn == call.sa[1]  dl == call.ia[1] IN
         IF ~DtypeOKForArray(dn, dl) THEN Raises({"ValueError"})
         ELSE IF call.xs[1].k = "lit" /\ call.xs[1].kind \in {"bin", "hex", "oct"} THEN Raises({"TypeError"})   \* a str is refused
         ELSE OkArr(dn, dl, XV(objs, call.xs[1]))
    [] op = "ascaled" ->
         \* Array(Dtype(name, n, scale = 2^k), items): sa = <<name, how>>, ia = <<n, k>>, va = items.  Every item is
         \* the scaled encoding of its value (DoNewScaled); what is read back is the scaled decoding of each item.
         LET dn == call.sa[1]  dl == call.ia[1]  k == call.ia[2]
             m == Len(call.va)
             enc == [i \in 1..m |-> DoNewScaled(opts, dn, dl, k, call.va[i])]
             bitsOf(i) == ObjOfVal(enc[i].vals[1]).v
             dec == [i \in 1..m |-> DoInterpScaled(Rec("Bits", bitsOf(i), -1), dn, dl, k)] IN
         IF ~DtypeOKForArray(dn, dl) THEN Raises({"ValueError"})
         ELSE IF \E i \in 1..m : enc[i].free # {} THEN Unconstrained
         ELSE IF \E i \in 1..m : enc[i].k = "raise" THEN Raises({"ValueError", "TypeError"})
         ELSE IF \E i \in 1..m : dec[i].free # {} THEN Unconstrained
         ELSE Ok(<<VNew("BitArray", FoldLeft(LAMBDA acc, i : acc \o bitsOf(i), <<>>, [i \in 1..m |-> i]))>>
                   \o [i \in 1..m |-> dec[i].vals[1]],
                 [i \in 1..(m + 1) |-> ""], NoUpd)
    [] op = "aastype" ->
         \* a.astype(dtype): a new Array holding the same item *values* encoded in the new dtype (trailing bits are not
         \* items).  Modelled where the values keep their kind: integer -> integer, float-valued -> float-valued.
         LET dn == call.sa[1]  dl == call.ia[1]
             c1 == Canon(a.dn)  c2 == Canon(dn)
             floaty(c) == c \in FloatNames \cup BFloatNames \cup AllMiniNames
             r == EncItems(dn, dl, ItemsOf(a), mx) IN
         IF ~DtypeOKForArray(dn, dl) THEN Raises({"ValueError"})
         ELSE IF ~((c1 \in IntNames /\ c2 \in IntNames) \/ (floaty(c1) /\ floaty(c2))) THEN Unconstrained
         ELSE IF \E i \in 1..n : LET v == ItemVal(a, i - 1) IN v[1] = 3 /\ IsNaN64(FloatBits(v)) THEN Unconstrained
         ELSE IF ~r.ok THEN Raises({"ValueError", "TypeError"})
         ELSE OkArr(dn, dl, r.bits)
    [] op = "afromfile" ->
         \* a.fromfile(f, n): appends whole items read from the file - all of them, or at most n; asking for more than
         \* there are appends what there is and then raises EOFError (as array.array.fromfile does)
         LET src == XV(objs, call.xs[1])
             avail == Len(src) \div w
             take == IF IsNone(i1) THEN avail ELSE MinI(MaxI(i1, 0), avail)
             new == ARec(a.dn, a.dl, a.v \o Sub(src, 0, take * w)) IN
         IF Len(Trailing(a)) # 0 THEN Raises(AnyDoc)
         ELSE IF ~IsNone(i1) /\ i1 < 0 THEN Unconstrained
         ELSE IF ~IsNone(i1) /\ avail < i1 THEN [Raises({"EOFError"}) EXCEPT !.alt = One(t, {new})]
         ELSE OkNone(One(t, new))
    [] op = "alen" -> OkV(VSmall(n))
    [] op = "aitemsize" -> OkV(VSmall(w))
    [] op = "agetitem" -> IF ListIdxOK(n, i1) THEN OkV(ItemVal(a, ListNorm(n, i1))) ELSE Raises({"IndexError"})
    [] op = "agetslice" ->
         IF i3 = 0 THEN Raises(AnyDoc)
         ELSE OkArr(a.dn, a.dl, FoldLeft(LAMBDA acc, q : acc \o q, <<>>, SeqSlice(ItemSeq(a), i1, i2, i3)))
    [] op = "atolist" -> Ok(ItemsOf(a), [i \in 1..n |-> ""], NoUpd)
    [] op = "aiter" -> Ok(ItemsOf(a), [i \in 1..n |-> ""], NoUpd)
    [] op = "atrailing" -> OkV(VNew("BitArray", Trailing(a)))
    [] op = "adata" -> OkV(VNew("BitArray", a.v))
    [] op = "atobytes" -> OkV(VBytes(ToDigits(PadToByte(a.v), 8)))
    [] op = "atofile" -> OkV(VBytes(ToDigits(PadToByte(a.v), 8)))
    \* copy.copy keeps everything; a[:] is a slice of the items and so leaves the trailing bits behind
    [] op = "acopy" -> OkArr(a.dn, a.dl, IF Len(call.sa) > 0 /\ call.sa[1] = "slice" THEN BodyBits(a) ELSE a.v)
    [] op = "asetitem" ->
         LET r == EncodeDtypeM(a.dn, a.dl, call.va[1], mx) IN
         IF ~ListIdxOK(n, i1) THEN Raises({"IndexError"})
         ELSE IF ~r.ok THEN Raises({"ValueError", "TypeError"})
         ELSE OkNone(Upd(OvwAt(a.v, r.bits, ListNorm(n, i1) * w)))
    [] op = "asetslice" ->
         LET r == EncItems(a.dn, a.dl, call.va, mx)
             blocks == [k \in 1..Len(call.va) |-> EncodeDtypeM(a.dn, a.dl, call.va[k], mx).bits] IN
         IF i3 = 0 THEN Raises(AnyDoc)
         ELSE IF ~r.ok THEN Raises({"ValueError", "TypeError"})
         ELSE IF IsNone(i3) \/ i3 = 1 THEN OkNone(Upd(Rebuild(a, SeqSetSlice1(ItemSeq(a), i1, i2, blocks))))
         ELSE IF SliceLen(n, i1, i2, i3) # Len(call.va) THEN Raises(AnyDoc)
         ELSE OkNone(Upd(Rebuild(a, SeqSetSliceExt(ItemSeq(a), i1, i2, i3, blocks))))
    [] op = "adelitem" ->
         IF ~ListIdxOK(n, i1) THEN Raises({"IndexError"})
         ELSE OkNone(Upd(DeleteRange(a.v, ListNorm(n, i1) * w, (ListNorm(n, i1) + 1) * w)))
    [] op = "adelslice" ->
         IF i3 = 0 THEN Raises(AnyDoc) ELSE OkNone(Upd(Rebuild(a, SeqDelSlice(ItemSeq(a), i1, i2, i3))))
    [] op = "aappend" ->
         LET r == EncodeDtypeM(a.dn, a.dl, call.va[1], mx) IN
         IF Len(Trailing(a)) # 0 THEN Raises(AnyDoc)
         ELSE IF ~r.ok THEN Raises({"ValueError", "TypeError"})
         ELSE OkNone(Upd(a.v \o r.bits))
    [] op = "aextend" ->
         LET r == EncItems(a.dn, a.dl, call.va, mx) IN
         IF Len(Trailing(a)) # 0 THEN Raises(AnyDoc)
         ELSE IF ~r.ok THEN [Raises({"ValueError", "TypeError"}) EXCEPT !.free = {"upd"}]
         ELSE OkNone(Upd(a.v \o r.bits))
    [] op = "ainsert" ->
         LET r == EncodeDtypeM(a.dn, a.dl, call.va[1], mx)
             pos == IF i1 < 0 THEN MaxI(i1 + n, 0) ELSE MinI(i1, n) IN
         IF ~r.ok THEN Raises({"ValueError", "TypeError"})
         ELSE OkNone(Upd(InsAt(a.v, r.bits, pos * w)))
    [] op = "apop" ->
         LET i == IF IsNone(i1) THEN -1 ELSE i1 IN
         IF n = 0 \/ ~ListIdxOK(n, i) THEN Raises({"IndexError"})
         ELSE Ok(<<ItemVal(a, ListNorm(n, i))>>, <<"">>, Upd(DeleteRange(a.v, ListNorm(n, i) * w, (ListNorm(n, i) + 1) * w)))
    [] op = "areverse" ->
         IF Len(Trailing(a)) # 0 THEN Raises(AnyDoc)
         ELSE OkNone(Upd(FoldLeft(LAMBDA acc, q : acc \o q, <<>>, [i \in 1..n |-> ItemBits(a, n - i)])))
    [] op = "acount" ->
         \* items are compared by value; NaN counts NaNs
         LET target == call.va[1]
             same(v) == IF v[1] = 3 /\ target[1] = 3 THEN
                           (IF IsNaN64(FloatBits(target)) THEN IsNaN64(FloatBits(v))
                            ELSE ~IsNaN64(FloatBits(v)) /\
                                 (FloatBits(v) = FloatBits(target) \/
                                  (SubSeq(FloatBits(v), 2, 64) = Zeros(63) /\ SubSeq(FloatBits(target), 2, 64) = Zeros(63))))
                        ELSE IF v[1] = 8 /\ target[1] = 8 THEN SubSeq(v, 5, Len(v)) = SubSeq(target, 5, Len(target))
                        ELSE v = target IN
         OkV(VSmall(Cardinality({i \in 1..n : same(ItemVal(a, i - 1))})))
    [] op = "aequals" ->
         LET b == objs[call.xs[1].id] IN
         OkV(VBool(Canon(a.dn) = Canon(b.dn) /\ ItemW(a) = ItemW(b) /\ a.v = b.v))
    [] op = "asetdtype" ->
         IF ~DtypeOKForArray(call.sa[1], i1) THEN Raises({"ValueError"})
         ELSE OkNone(One(t, ARec(call.sa[1], i1, a.v)))
    [] op = "abyteswap" ->
         IF w % 8 # 0 THEN Raises(AnyDoc)
         ELSE OkNone(Upd(FoldLeft(LAMBDA acc, q : acc \o ByteRev(q), <<>>, ItemSeq(a)) \o Trailing(a)))
    [] op \in {"aop", "aiop"} ->
         \* integer dtype, small integer scalar: va = <<scalar>>, sa = <<operator>>
         LET opn == call.sa[1]
             y == SmallOf(call.va[1])
             res == [i \in 1..n |-> ApplyInt(opn, SmallOf(ItemVal(a, i - 1)), y)]
             enc == [i \in 1..n |-> EncodeDtypeM(a.dn, a.dl, IntValOf(res[i].v), mx)]
             fails == \E i \in 1..n : ~res[i].ok \/ ~enc[i].ok
             bits == FoldLeft(LAMBDA acc, q : acc \o q.bits, <<>>, enc) IN
         IF ~IsIntDtype(a.dn) \/ a.dl > 16 THEN Unconstrained
         ELSE IF fails THEN Raises({"ValueError", "ZeroDivisionError"})
         ELSE IF op = "aop" THEN OkArr(a.dn, a.dl, bits)
         ELSE [Ok(<<VArr(a.dn, a.dl, bits)>>, <<t>>, Upd(bits)) EXCEPT !.free = {"trailing"}, !.arr = <<Canon(a.dn), a.dl>>]
    [] op \in {"aopf", "aiopf"} ->
         \* float-valued dtype, scalar operand: va = <<scalar>> \o <<what Python's float arithmetic gives for each item>>
         \* (<<0>> where Python itself raises).  IEEE double arithmetic is an oracle input; what is specified is the Array
         \* machinery around it: every item is replaced by the encoding of its result in the Array's own dtype, a failing
         \* item makes the whole operation raise ValueError and (in place) change nothing, trailing bits are dropped by the
         \* result / kept apart as for the integer operators.
         LET res == SubSeq(call.va, 2, Len(call.va))
             floaty == Canon(a.dn) \in FloatNames \cup BFloatNames \cup AllMiniNames
             enc == [i \in 1..n |-> IF res[i][1] = 3 THEN EncodeDtypeM(a.dn, a.dl, res[i], mx) ELSE Bad]
             bits == FoldLeft(LAMBDA acc, q : acc \o q.bits, <<>>, enc) IN
         IF ~floaty \/ Len(res) # n \/ \E i \in 1..n : res[i][1] = 13 THEN Unconstrained
         ELSE IF \E i \in 1..n : res[i][1] = 3 /\ IsNaN64(FloatBits(res[i])) THEN Unconstrained      \* NaN payloads
         ELSE IF \E i \in 1..n : ~enc[i].ok THEN Raises({"ValueError", "ZeroDivisionError"})
         ELSE IF op = "aopf" THEN OkArr(a.dn, a.dl, bits)
         ELSE [Ok(<<VArr(a.dn, a.dl, bits)>>, <<t>>, Upd(bits)) EXCEPT !.free = {"trailing"}, !.arr = <<Canon(a.dn), a.dl>>]
    [] op = "aopaf" ->
         \* Array op Array with at least one float-valued side: va = what Python gives for each pair of items (oracle
         \* input, <<0>> where Python raises).  Specified: the promoted dtype (floats win over integers, then the longer
         \* type, then the first), equal lengths required, every result encoded in the promoted dtype, one failing item
         \* fails the whole operation.
         LET b == objs[call.xs[1].id]
             res == call.va
             floaty(x) == Canon(x.dn) \in FloatNames \cup BFloatNames \cup AllMiniNames
             pr == IF Canon(a.dn) = Canon(b.dn) THEN (IF a.dl > b.dl THEN a ELSE b)
                   ELSE IF floaty(a) /\ ~floaty(b) THEN a
                   ELSE IF floaty(b) /\ ~floaty(a) THEN b
                   ELSE IF b.dl > a.dl THEN b ELSE a
             enc == [i \in 1..n |-> IF res[i][1] = 3 THEN EncodeDtypeM(pr.dn, pr.dl, res[i], mx) ELSE Bad] IN
         IF ~(floaty(a) \/ floaty(b)) \/ ~(floaty(a) \/ IsIntDtype(a.dn)) \/ ~(floaty(b) \/ IsIntDtype(b.dn)) THEN Unconstrained
         ELSE IF NItems(b) # n THEN Raises(AnyDoc)
         ELSE IF Len(res) # n \/ \E i \in 1..n : res[i][1] = 13 \/ (res[i][1] = 3 /\ IsNaN64(FloatBits(res[i]))) THEN Unconstrained
         ELSE IF \E i \in 1..n : ~enc[i].ok THEN Raises({"ValueError"})
         ELSE OkArr(pr.dn, pr.dl, FoldLeft(LAMBDA acc, q : acc \o q.bits, <<>>, enc))
    [] op = "aunary" ->
         LET opn == call.sa[1]
             res == [i \in 1..n |-> ApplyInt(opn, SmallOf(ItemVal(a, i - 1)), 0)]
             enc == [i \in 1..n |-> EncodeDtypeM(a.dn, a.dl, IntValOf(res[i].v), mx)] IN
         IF ~IsIntDtype(a.dn) \/ a.dl > 16 THEN Unconstrained
         ELSE IF \E i \in 1..n : ~enc[i].ok THEN Raises({"ValueError"})
         ELSE OkArr(a.dn, a.dl, FoldLeft(LAMBDA acc, q : acc \o q.bits, <<>>, enc))
    [] op = "acmp" ->
         LET opn == call.sa[1]
             y == SmallOf(call.va[1]) IN
         IF ~IsIntDtype(a.dn) \/ a.dl > 16 THEN Unconstrained
         ELSE OkArr("bool", 1, [i \in 1..n |-> IF CmpInt(opn, SmallOf(ItemVal(a, i - 1)), y) THEN 1 ELSE 0])
    [] op = "abitop" ->
         \* & | ^ with a bitstring of one item's width applied to every item; trailing bits stay
         LET opn == call.sa[1]
             x == XV(objs, call.xs[1])
             bits == FoldLeft(LAMBDA acc, q : acc \o BinB(opn, q, x), <<>>, ItemSeq(a)) IN
         IF Len(x) # w THEN Raises(AnyDoc)
         ELSE IF call.sa[2] = "inplace" THEN [Ok(<<VArr(a.dn, a.dl, bits \o Trailing(a))>>, <<t>>, Upd(bits \o Trailing(a))) EXCEPT !.arr = <<Canon(a.dn), a.dl>>]
         ELSE [OkArr(a.dn, a.dl, bits) EXCEPT !.free = {"trailing"}]
    [] op = "aopa" ->
         \* element-wise operator between two integer Arrays of equal length, with promotion
         LET b == objs[call.xs[1].id]
             opn == call.sa[1]
             pr == Promote(a, b)
             res == [i \in 1..n |-> ApplyInt(opn, SmallOf(ItemVal(a, i - 1)), SmallOf(ItemVal(b, i - 1)))]
             enc == [i \in 1..n |-> EncodeDtypeM(pr.dn, pr.dl, IntValOf(res[i].v), mx)] IN
         IF ~IsIntDtype(a.dn) \/ ~IsIntDtype(b.dn) \/ a.dl > 16 \/ b.dl > 16 THEN Unconstrained
         ELSE IF NItems(b) # n THEN Raises(AnyDoc)
         ELSE IF \E i \in 1..n : ~res[i].ok \/ ~enc[i].ok THEN Raises({"ValueError", "ZeroDivisionError"})
         ELSE OkArr(pr.dn, pr.dl, FoldLeft(LAMBDA acc, q : acc \o q.bits, <<>>, enc))
    [] op = "aextendarr" ->
         LET b == objs[call.xs[1].id] IN
         IF Len(Trailing(a)) # 0 THEN Raises(AnyDoc)
         ELSE IF Canon(a.dn) # Canon(b.dn) \/ ItemW(a) # ItemW(b) THEN Raises({"TypeError", "ValueError"})
         ELSE OkNone(Upd(a.v \o b.v))
    [] op = "afromarray" ->
         \* Array(code, array.array(typecode, values)) : accepted only for the same kind and width, native order
         LET dn == call.sa[1]  dl == call.ia[1]
             native == StructToks("@", <<call.sa[2]>>)[1]        \* array.array items have the native size
             r == EncItems(native.nm, native.n, call.va, mx) IN
         IF ~DtypeOKForArray(dn, dl) THEN Raises({"ValueError"})
         ELSE IF Canon(dn) # Canon(native.nm) \/ dl * Unit(Canon(dn)) # native.n THEN Raises({"ValueError", "TypeError"})
         \* typecodes whose native size differs from the standard size ('l', 'L') are refused for every dtype
         ELSE IF NativeSize(call.sa[2]) # StdSize(call.sa[2]) THEN [Raises({"ValueError", "TypeError"}) EXCEPT !.k = "ok?", !.vals = <<>>, !.free = {"vals", "upd"}]
         ELSE IF ~r.ok THEN Unconstrained
         ELSE OkArr(dn, dl, r.bits)
=============================================================================
