SPECIFICATION Spec
CONSTANT Mode = "golomb"
CONSTANT W = 13
CHECK_DEADLOCK FALSE
INVARIANT PatternRoundTrip
INVARIANT BadLengthRefused
INVARIANT TwosComplementArithmetic
INVARIANT LittleIsReversedBig
INVARIANT RangeLimits
INVARIANT HalfRoundTrip
INVARIANT BFloatRoundTrip
INVARIANT GolombTotalCanonical
INVARIANT GolombTruncated
