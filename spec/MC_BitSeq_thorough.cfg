SPECIFICATION Spec
CONSTANT L = 6
INVARIANT TwoDefinitionsAgree
INVARIANT SliceInRange
INVARIANT SliceLenOK
INVARIANT FullSlice
INVARIANT RevInvolution
INVARIANT DelComplement
INVARIANT UnitStep
INVARIANT NegStepMirror
INVARIANT SetSliceIdentity
CHECK_DEADLOCK FALSE
