SPECIFICATION Spec
CONSTANT N = 3
CONSTANT NDt = 2
INVARIANT ListCommutes
INVARIANT TrailingKept
INVARIANT FailureKeeps
INVARIANT DtypeKept
CHECK_DEADLOCK FALSE
