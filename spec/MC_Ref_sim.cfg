SPECIFICATION Spec
CONSTANT LMax = 6
CONSTANT LLit = 2
CONSTANT Fams = {"grow", "del", "setitem", "range"}
CONSTANT Depth = 8
CONSTANT Record = TRUE
INVARIANT PosValid
INVARIANT ClassesFixed
CHECK_DEADLOCK FALSE
