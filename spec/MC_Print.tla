------------------------------ MODULE MC_Print ------------------------------
(***************************************************************************)
(* Role A for C19: the relations of Printable.tla are satisfiable and      *)
(* discriminating.  For every content up to L bits a canonical rendering   *)
(* (hex digits for the whole nibbles, binary for the rest; a bin:4 pretty  *)
(* print with the given width) satisfies StrOK / ReprOK / PPOK, and the    *)
(* same rendering with one digit changed, one digit dropped, a group       *)
(* split, an over-long line or an escape under no_color does not.          *)
(***************************************************************************)
EXTENDS Spec
CONSTANT L
VARIABLES v, width
vars == <<v, width>>
Init == v \in BitsUpTo(L) /\ width \in {4, 9, 14, 30}
Next == UNCHANGED vars
Spec == Init /\ [][Next]_vars
o == Rec("Bits", v, -1)
n == Len(v)
nib == n \div 4
HexTok == <<4>> \o ToDigits(Sub(v, 0, 4 * nib), 4)
BinTok == <<6>> \o Sub(v, 4 * nib, n)
CanonStr == <<<<9, 0>>>> \o (IF nib > 0 THEN <<HexTok>> ELSE <<>>) \o (IF n % 4 # 0 THEN <<BinTok>> ELSE <<>>)
FlipLast(tok) == [tok EXCEPT ![Len(tok)] = IF tok[Len(tok)] = 0 THEN 1 ELSE 0]
StrHolds == StrOK(o, CanonStr)
StrDiscriminates ==
  n > 0 => /\ ~StrOK(o, [CanonStr EXCEPT ![Len(CanonStr)] = FlipLast(CanonStr[Len(CanonStr)])])
           /\ ~StrOK(o, SubSeq(CanonStr, 1, Len(CanonStr) - 1))
           /\ ~StrOK(o, [CanonStr EXCEPT ![1] = <<9, 1>>])
ReprHolds == ReprOK(o, <<<<9, 0>>, VObj("Bits", v, -1)>>) /\ ~ReprOK(o, <<<<9, 0>>, VObj("BitArray", v, -1)>>)
                /\ ~ReprOK(Rec("BitStream", v, 0), <<<<9, 0>>, VObj("BitStream", v, n + 1)>>)
\* canonical bin:4 layout: groups of 4 digits, as many per line as fit in width (at least one)
G == n \div 4
PerLine == MaxI(1, (width + 1) \div 5)
NLines == CeilDiv(G, PerLine)
GroupsOnLine(i) == IF i < NLines THEN PerLine ELSE G - (NLines - 1) * PerLine
LineLen(i) == 5 * GroupsOnLine(i) - 1
CanonPP == << <<9, 0>>, <<6>> \o Sub(v, 0, 4 * G), <<6>>, <<11>> \o [i \in 1..G |-> 4],
              <<11>> \o [i \in 1..NLines |-> LineLen(i)], <<11>> \o [i \in 1..NLines |-> GroupsOnLine(i)],
              <<6>> \o Sub(v, 4 * G, n) >>
PPHolds == PPOK(o, CanonPP, 4, width, TRUE, FALSE, TRUE, FALSE)
PPDiscriminates ==
  G > 0 =>
    /\ ~PPOK(o, [CanonPP EXCEPT ![1] = <<9, 2>>], 4, width, TRUE, FALSE, TRUE, FALSE)                       \* escapes under no_color
    /\ ~PPOK(o, [CanonPP EXCEPT ![2] = FlipLast(CanonPP[2])], 4, width, TRUE, FALSE, TRUE, FALSE)           \* a wrong digit
    /\ ~PPOK(o, [CanonPP EXCEPT ![4] = <<11, 3, 1>> \o SubSeq(CanonPP[4], 3, Len(CanonPP[4]))], 4, width, TRUE, FALSE, TRUE, FALSE)  \* a split group
    /\ (G >= 2 => ~PPOK(o, [CanonPP EXCEPT ![5] = <<11, width + 1>> \o SubSeq(CanonPP[5], 3, Len(CanonPP[5])),
                                           ![6] = <<11, 2>> \o SubSeq(CanonPP[6], 3, Len(CanonPP[6]))], 4, width, TRUE, FALSE, TRUE, FALSE))
    /\ (n % 4 # 0 => ~PPOK(o, [CanonPP EXCEPT ![7] = <<6>>], 4, width, TRUE, FALSE, TRUE, FALSE))          \* trailing bits not reported
=============================================================================
