-------------------------------- MODULE Spec --------------------------------
(***************************************************************************)
(* The complete step function: the union of the call alphabets of the      *)
(* modules of the specification.                                           *)
(***************************************************************************)
EXTENDS Printable

\* Calls recorded from executions the harness did not generate (the repository's own tests under the external
\* tracer): the arguments are arbitrary Python values, so results are not judged - but whatever the call is, it may
\* change at most the object it is made on ("target" free), on success or failure; everything else the validator
\* checks for every event (valid positions, len = len(bin), immutable objects constant, options untouched, a returned
\* object being what it is logged as) applies.  extsee states what the tracer saw between calls and is not judged.
ExtOps == {"extcall", "extsee"}
ExtStep(objs, opts, call) ==
  IF call.op = "extsee" THEN Unconstrained
  ELSE Res("ok?", {"*", "Internal"}, <<>>, <<>>, NoUpd, NoUpd, {"vals", "target"})

Step(objs, opts, call) ==
  IF call.op \in ExtOps THEN ExtStep(objs, opts, call)
  ELSE IF call.op \in CoreOps THEN CoreStep(objs, opts, call)
  ELSE IF call.op \in CodecOps THEN CodecStep(objs, opts, call)
  ELSE IF call.op \in FormatOps THEN FormatStep(objs, opts, call)
  ELSE IF call.op \in SerialOps THEN SerialStep(objs, opts, call)
  ELSE IF call.op \in DeriveOps THEN DeriveStep(objs, opts, call)
  \* (no property says what an Array does in lsb0 mode - C14 is about the list model, C12 about bitstrings - so
  \* there only the envelope clauses of the validator apply)
  ELSE IF call.op \in ArrayOps THEN (IF opts.lsb0 THEN Unconstrained ELSE ArrayStep(objs, opts, call))
  ELSE IF call.op \in PrintOps THEN PrintStep(objs, opts, call)
  ELSE Unconstrained
=============================================================================
