-------------------------------- MODULE Spec --------------------------------
(***************************************************************************)
(* The complete step function: the union of the call alphabets of the      *)
(* modules of the specification.                                           *)
(***************************************************************************)
EXTENDS Printable

Step(objs, opts, call) ==
  IF call.op \in CoreOps THEN CoreStep(objs, opts, call)
  ELSE IF call.op \in CodecOps THEN CodecStep(objs, opts, call)
  ELSE IF call.op \in FormatOps THEN FormatStep(objs, opts, call)
  ELSE IF call.op \in SerialOps THEN SerialStep(objs, opts, call)
  ELSE IF call.op \in DeriveOps THEN DeriveStep(objs, opts, call)
  ELSE IF call.op \in ArrayOps THEN ArrayStep(objs, opts, call)
  ELSE IF call.op \in PrintOps THEN PrintStep(objs, opts, call)
  ELSE Unconstrained
=============================================================================
