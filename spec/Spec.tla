-------------------------------- MODULE Spec --------------------------------
(***************************************************************************)
(* The complete step function: the union of the call alphabets of the      *)
(* modules of the specification.                                           *)
(***************************************************************************)
EXTENDS Bitstring

Step(objs, opts, call) ==
  IF call.op \in CoreOps THEN CoreStep(objs, opts, call)
  ELSE Unconstrained
=============================================================================
