SPECIFICATION Spec
CONSTANT L = 8
CHECK_DEADLOCK FALSE
INVARIANT PaddedOnly
INVARIANT WindowRecovers
INVARIANT ChunkingLossless
INVARIANT ChunkingNeedsBytes
INVARIANT WindowRejects
