-------------------------------- MODULE Calls --------------------------------
(***************************************************************************)
(* The call alphabet of the core Ref machine as *sets of calls enabled on  *)
(* a content v*, one operator per family.  Arguments range over values in, *)
(* at and beyond the ends of v (negative indices, None, zero and negative  *)
(* steps, empty / self operands, integers at the limits).                  *)
(*                                                                         *)
(* Used by Gen_Core.tla (rows = content x call, replayed into the code),   *)
(* MC_Core.tla (frame / position theorems of the Step function on every    *)
(* row) and MC_Ref.tla (the Ref machine explored as a state graph).        *)
(* Families take parameters so that TLC does not evaluate all of them      *)
(* eagerly as constants.                                                   *)
(***************************************************************************)
EXTENDS Spec


Lit(v) == [k |-> "lit", kind |-> "bin", v |-> v]
Self == [k |-> "obj", id |-> "a"]
Call(op, ia, sa, va, xs) == [op |-> op, t |-> "a", ia |-> ia, sa |-> sa, va |-> va, xs |-> xs]
\* a row: content v, position p (-1: every position is tried by the harness), call
Row(v, p, call) == [v |-> v, p |-> p, call |-> call]

Idx(n) == {NoneI} \cup (-(n + 2)..(n + 2))
Idx1(n) == {NoneI} \cup (-(n + 1)..(n + 1))
Steps(n) == {NoneI} \cup (-(n + 1)..(n + 1))
Opnd(n) == BitsUpTo(n)
SmallInt(i) == IF i < 0 THEN <<2, 1>> \o (IF -i = 1 THEN <<1>> ELSE IF -i < 4 THEN UBits(-i, 2) ELSE IF -i < 8 THEN UBits(-i, 3) ELSE UBits(-i, 4))
           ELSE IF i = 0 THEN <<2, 0>>
           ELSE <<2, 0>> \o (IF i = 1 THEN <<1>> ELSE IF i < 4 THEN UBits(i, 2) ELSE IF i < 8 THEN UBits(i, 3) ELSE UBits(i, 4))

Contents(n) == BitsUpTo(n)

\* ---- C16: operators -------------------------------------------------------
BitwiseCalls(v, LL, LLX) ==
    {Call("inv", <<>>, <<>>, <<>>, <<>>)}
    \cup {Call(op, <<>>, <<>>, <<>>, <<Lit(w)>>) :
            op \in {"and", "or", "xor", "rand", "ror_", "rxor"}, w \in BitsUpTo(LL)}
    \cup {Call(op, <<>>, <<>>, <<>>, <<Self>>) : op \in {"and", "or", "xor"}}
    \cup {Call(op, <<k>>, <<>>, <<>>, <<>>) : op \in {"lshift", "rshift"}, k \in (-2..(Len(v) + 2))}

InplaceBitwiseCalls(v, LL, LLX) ==
    {Call(op, <<>>, <<>>, <<>>, <<Lit(w)>>) : op \in {"iand", "ior", "ixor"}, w \in BitsUpTo(LL)}
    \cup {Call(op, <<>>, <<>>, <<>>, <<Self>>) : op \in {"iand", "ior", "ixor"}}
    \cup {Call(op, <<k>>, <<>>, <<>>, <<>>) : op \in {"ilshift", "irshift"}, k \in (-2..(Len(v) + 2))}
    \cup {Call("imul", <<k>>, <<>>, <<>>, <<>>) : k \in -1..4}

\* ---- C03: mutators --------------------------------------------------------
GrowCalls(v, LL, LLX) ==
    {Call(op, <<>>, <<>>, <<>>, <<Lit(w)>>) : op \in {"append", "prepend", "iadd"}, w \in Opnd(LLX)}
    \cup {Call(op, <<>>, <<>>, <<>>, <<Self>>) : op \in {"append", "prepend", "iadd"}}
    \cup {Call(op, <<p>>, <<>>, <<>>, <<Lit(w)>>) :
            op \in {"insert", "overwrite"}, w \in Opnd(LLX), p \in Idx(Len(v))}
    \cup {Call(op, <<p>>, <<>>, <<>>, <<Self>>) : op \in {"insert", "overwrite"}, p \in Idx(Len(v))}
    \cup {Call("clear", <<>>, <<>>, <<>>, <<>>)}

DelCalls(v, LL, LLX) ==
    {Call("delitem", <<i>>, <<>>, <<>>, <<>>) : i \in (-(Len(v) + 2)..(Len(v) + 2))}
    \cup {Call("delslice", <<a, b, c>>, <<>>, <<>>, <<>>) :
            a \in Idx(Len(v)), b \in Idx(Len(v)), c \in Steps(Len(v))}

SetItemCalls(v, LL, LLX) ==
    {Call("setitem", <<i>>, <<>>, <<SmallInt(k)>>, <<>>) : i \in (-(Len(v) + 2)..(Len(v) + 2)), k \in -2..2}
    \cup {Call("setitem", <<i>>, <<>>, <<>>, <<Lit(w)>>) : i \in (-(Len(v) + 2)..(Len(v) + 2)), w \in Opnd(LLX)}

SetSliceCalls(v, LL, LLX) ==
    {Call("setslice", <<a, b, c>>, <<>>, <<>>, <<Lit(w)>>) :
            a \in Idx1(Len(v)), b \in Idx1(Len(v)), c \in Steps(Len(v)), w \in Opnd(LLX)}
    \cup {Call("setslice", <<a, b, c>>, <<>>, <<SmallInt(k)>>, <<>>) :
            a \in Idx1(Len(v)), b \in Idx1(Len(v)), c \in Steps(Len(v)), k \in {-5, -4, -3, -2, -1, 0, 1, 2, 3, 4, 7, 8}}

RangeCalls(v, LL, LLX) ==
    {Call("reverse", <<a, b>>, <<>>, <<>>, <<>>) : a \in Idx(Len(v)), b \in Idx(Len(v))}
    \cup {Call(op, <<k, a, b>>, <<>>, <<>>, <<>>) :
            op \in {"rol", "ror"}, k \in (-1..(Len(v) + 1)), a \in Idx1(Len(v)), b \in Idx1(Len(v))}

SetCalls(v, LL, LLX) ==
    {Call("set", <<val>>, <<"none">>, <<>>, <<>>) : val \in {0, 1}}
    \cup {Call("set", <<val, i>>, <<"int">>, <<>>, <<>>) : val \in {0, 1}, i \in (-(Len(v) + 2)..(Len(v) + 2))}
    \cup {Call("set", <<val, i, j>>, <<kind>>, <<>>, <<>>) :
            val \in {0, 1}, kind \in {"list", "tuple"}, i \in (-(Len(v) + 1)..(Len(v) + 1)), j \in (-(Len(v) + 1)..(Len(v) + 1))}
    \cup {Call("set", <<val, a, b, c>>, <<"range">>, <<>>, <<>>) :
            val \in {0, 1}, a \in (0..Len(v)), b \in (0..Len(v)), c \in {1, 2}}
    \cup {Call("invert", <<>>, <<"none">>, <<>>, <<>>)}
    \cup {Call("invert", <<i>>, <<"int">>, <<>>, <<>>) : i \in (-(Len(v) + 2)..(Len(v) + 2))}
    \cup {Call("invert", <<i, j>>, <<kind>>, <<>>, <<>>) :
            kind \in {"list", "tuple"}, i \in (-(Len(v) + 1)..(Len(v) + 1)), j \in (-(Len(v) + 1)..(Len(v) + 1))}

ReplaceCalls(v, LL, LLX) ==
    {Call("replace", <<a, b, cnt, NoneI>>, <<>>, <<>>, <<Lit(old), Lit(new)>>) :
        old \in BitsUpTo(2), new \in BitsUpTo(2), a \in {NoneI, 0, 1, -1, Len(v) + 1}, b \in {NoneI, Len(v), -1, 2},
        cnt \in {NoneI, 0, 1, 2}}

\* ---- C06: stream operations, from every position ---------------------------
StreamCalls(v, LL, LLX) ==
    {Call("setpos", <<q>>, <<"pos">>, <<>>, <<>>) : q \in (-2..(Len(v) + 2))}
    \cup {Call("setpos", <<q>>, <<"bytepos">>, <<>>, <<>>) : q \in -1..2}
    \cup {Call("getpos", <<>>, <<w>>, <<>>, <<>>) : w \in {"pos", "bitpos", "bytepos"}}
    \cup {Call("bytealign", <<>>, <<>>, <<>>, <<>>)}
    \cup {Call(op, <<k>>, <<>>, <<>>, <<>>) : op \in {"readbits", "peekbits"}, k \in (-1..(Len(v) + 1))}
    \cup {Call(op, <<k, j>>, <<>>, <<>>, <<>>) :
            op \in {"readlistbits", "peeklistbits"}, k \in (0..(Len(v) + 1)), j \in (0..2)}
    \cup {Call("readto", <<ba>>, <<>>, <<>>, <<Lit(w)>>) : w \in BitsUpTo(2), ba \in {NoneI, 0, 1}}
    \cup {Call(op, <<a, b, NoneI>>, <<>>, <<>>, <<Lit(w)>>) :
            op \in {"find", "rfind"}, w \in BitsUpTo(2), a \in {NoneI, 1}, b \in {NoneI, Len(v) - 1}}

\* ---- C06 / C10: token reads from the current position (used by the Ref machine, which steps with Step) -------
TokReadCalls(v, LL, LLX) ==
    {Call(op, <<k>>, <<nm>>, <<>>, <<>>) : op \in {"readtok", "peektok"}, nm \in {"uint", "int", "bin"}, k \in 1..2}
    \cup {Call(op, <<NoneI>>, <<nm>>, <<>>, <<>>) : op \in {"readtok", "peektok"}, nm \in {"bool", "ue", "se", "uie", "sie", "bits", "uint"}}
    \cup {Call(op, <<4>>, <<"hex">>, <<>>, <<>>) : op \in {"readtok", "peektok"}}

\* ---- C07: searching -------------------------------------------------------
SearchCalls(v, LL, LLX) ==
    {Call(op, <<a, b, NoneI>>, <<>>, <<>>, <<Lit(w)>>) :
        op \in {"find", "rfind"}, w \in BitsUpTo(LLX), a \in Idx1(Len(v)), b \in Idx1(Len(v))}
    \cup {Call("findall", <<a, b, cnt, NoneI>>, <<>>, <<>>, <<Lit(w)>>) :
        w \in BitsUpTo(LLX), a \in Idx1(Len(v)), b \in Idx1(Len(v)), cnt \in {NoneI, -1, 0, 1, 2}}
    \cup {Call(op, <<a, b>>, <<>>, <<>>, <<Lit(w)>>) :
        op \in {"startswith", "endswith"}, w \in BitsUpTo(LLX), a \in Idx1(Len(v)), b \in Idx1(Len(v))}
    \cup {Call("contains", <<>>, <<>>, <<>>, <<Lit(w)>>) : w \in BitsUpTo(LLX)}
    \cup {Call("count", <<val>>, <<>>, <<>>, <<>>) : val \in {0, 1}}
    \cup {Call("cut", <<bits, a, b, cnt>>, <<>>, <<>>, <<>>) :
        bits \in (-1..(Len(v) + 1)), a \in {NoneI, 0, 1, -1}, b \in {NoneI, Len(v), -1, Len(v) + 1}, cnt \in {NoneI, -1, 0, 1, 2}}
    \cup {Call("split", <<a, b, cnt, NoneI>>, <<>>, <<>>, <<Lit(w)>>) :
        w \in BitsUpTo(2), a \in {NoneI, 0, 1, -1}, b \in {NoneI, Len(v), -1, Len(v) + 1}, cnt \in {NoneI, -1, 0, 1, 2, 3}}

\* ---- C13: comparisons ------------------------------------------------------
CompareCalls(v, LL, LLX) ==
    {Call(op, <<>>, <<>>, <<>>, <<Lit(w)>>) : op \in {"eq", "ne", "hasheq", "inset"}, w \in BitsUpTo(LL)}
    \cup {Call("eq_py", <<ne>>, <<k>>, <<>>, <<>>) :
            ne \in {0, 1}, k \in {"int", "float", "none", "object", "zero"}}
    \cup {Call("hashable", <<>>, <<>>, <<>>, <<>>)}
    \cup {Call(op, <<>>, <<>>, <<>>, <<>>) : op \in {"copy_m", "copy_c"}}


FamilyCalls(fam, v, LL, LLX) ==
  CASE fam = "bitwise" -> BitwiseCalls(v, LL, LLX) \cup InplaceBitwiseCalls(v, LL, LLX)
    [] fam = "grow" -> GrowCalls(v, LL, LLX)
    [] fam = "del" -> DelCalls(v, LL, LLX)
    [] fam = "setitem" -> SetItemCalls(v, LL, LLX)
    [] fam = "setslice" -> SetSliceCalls(v, LL, LLX)
    [] fam = "range" -> RangeCalls(v, LL, LLX)
    [] fam = "set" -> SetCalls(v, LL, LLX)
    [] fam = "replace" -> ReplaceCalls(v, LL, LLX)
    [] fam = "stream" -> StreamCalls(v, LL, LLX)
    [] fam = "tokread" -> TokReadCalls(v, LL, LLX)
    [] fam = "search" -> SearchCalls(v, LL, LLX)
    [] fam = "compare" -> CompareCalls(v, LL, LLX)

\* rows: the stream family is enumerated from every position; for the others the
\* harness picks the positions (p = -1)
FamilyRows(fam, LL, LLX) ==
  IF fam = "stream"
    THEN UNION {UNION {{Row(v, p, c) : c \in FamilyCalls(fam, v, LL, LLX)} : p \in 0..Len(v)} : v \in Contents(LL)}
    ELSE UNION {{Row(v, -1, c) : c \in FamilyCalls(fam, v, LL, LLX)} : v \in Contents(LL)}
=============================================================================
