-------------------------------- MODULE Mini --------------------------------
(***************************************************************************)
(* The 8-, 6- and 4-bit floating point formats, the E8M0 scale format and  *)
(* MXINT8 (C11): decoding every code from the format definition, and       *)
(* encoding a Python float - first rounded to IEEE half precision, then to *)
(* the nearest representable value of the format (ties to the even code,   *)
(* on the grid extended by the first special slot, overflow decided after  *)
(* rounding) with the overflow / infinity / NaN rules of each format and   *)
(* of the mxfp_overflow option.  All arithmetic is on bit patterns.        *)
(***************************************************************************)
EXTENDS CodecBase

\* name |-> [bits, E, M, bias, kind]   kind: "mxfp8" (e4m3/e5m2), "mxfp" (6/4 bit), "binary8"
MiniFmt(name) ==
  CASE name = "e4m3mxfp" -> [bits |-> 8, E |-> 4, M |-> 3, bias |-> 7, kind |-> "e4m3"]
    [] name = "e5m2mxfp" -> [bits |-> 8, E |-> 5, M |-> 2, bias |-> 15, kind |-> "e5m2"]
    [] name = "e3m2mxfp" -> [bits |-> 6, E |-> 3, M |-> 2, bias |-> 3, kind |-> "small"]
    [] name = "e2m3mxfp" -> [bits |-> 6, E |-> 2, M |-> 3, bias |-> 1, kind |-> "small"]
    [] name = "e2m1mxfp" -> [bits |-> 4, E |-> 2, M |-> 1, bias |-> 1, kind |-> "small"]
    [] name = "p4binary" -> [bits |-> 8, E |-> 4, M |-> 3, bias |-> 8, kind |-> "binary8"]
    [] name = "p3binary" -> [bits |-> 8, E |-> 5, M |-> 2, bias |-> 16, kind |-> "binary8"]
MiniNames == {"e4m3mxfp", "e5m2mxfp", "e3m2mxfp", "e2m3mxfp", "e2m1mxfp", "p4binary", "p3binary"}
AllMiniNames == MiniNames \cup {"e8m0mxfp", "mxint"}
MiniBits(name) == IF name \in MiniNames THEN MiniFmt(name).bits ELSE 8

PInf64 == <<0>> \o Ones(11) \o Zeros(52)
NInf64 == <<1>> \o Ones(11) \o Zeros(52)
NaN64 == <<0>> \o Ones(11) \o <<1>> \o Zeros(51)

\* exact value of a (sign, E-bit exponent, M-bit mantissa) code with the given bias, as a double pattern
WidenBias(b, E, M, bias) ==
  LET s == b[1]
      e == UVal(Sub(b, 1, 1 + E))
      m == Sub(b, 1 + E, 1 + E + M)
      pad(q) == q \o Zeros(52 - Len(q)) IN
  IF e = 0 THEN
     (IF \A i \in 1..M : m[i] = 0 THEN <<s>> \o Zeros(63)
      ELSE LET j == Min({i \in 1..M : m[i] = 1}) IN
           <<s>> \o UBits((1 - bias) - j + 1023, 11) \o pad(Sub(m, j, M)))
  ELSE <<s>> \o UBits(e - bias + 1023, 11) \o pad(m)

\* code magnitude (the E+M bits after the sign) of the largest finite value
MaxFiniteField(f) ==
  CASE f.kind = "e4m3" -> <<1, 1, 1, 1, 1, 1, 0>>
    [] f.kind = "e5m2" -> <<1, 1, 1, 1, 0, 1, 1>>
    [] f.kind = "binary8" -> <<1, 1, 1, 1, 1, 1, 0>>
    [] OTHER -> Ones(f.E + f.M)

\* 2^-127 .. 2^127 are all normal doubles
E8M0Decode(code) == LET u == UVal(code) IN IF u = 255 THEN NaN64 ELSE <<0>> \o UBits(u - 127 + 1023, 11) \o Zeros(52)

\* C11 decode
MiniDecode(name, code) ==
  IF name = "e8m0mxfp" THEN E8M0Decode(code)
  ELSE IF name = "mxint" THEN
     \* two's complement integer times 2^-6
     LET v == DecSint(code)
         mag == IntMag(v) IN
     IF mag = <<>> THEN Zeros(64)
     ELSE <<IntNeg(v)>> \o UBits(Len(mag) - 1 - 6 + 1023, 11) \o (SubSeq(mag, 2, Len(mag)) \o Zeros(52 - (Len(mag) - 1)))
  ELSE
     LET f == MiniFmt(name)
         field == Sub(code, 1, f.bits) IN
     CASE f.kind = "e4m3" /\ field = Ones(7) -> NaN64
       [] f.kind = "e5m2" /\ field = <<1, 1, 1, 1, 1, 0, 0>> -> (IF code[1] = 0 THEN PInf64 ELSE NInf64)
       [] f.kind = "e5m2" /\ Sub(field, 0, 5) = Ones(5) -> NaN64
       [] f.kind = "binary8" /\ code = <<1, 0, 0, 0, 0, 0, 0, 0>> -> NaN64
       [] f.kind = "binary8" /\ field = Ones(7) -> (IF code[1] = 0 THEN PInf64 ELSE NInf64)
       [] OTHER -> WidenBias(code, f.E, f.M, f.bias)

\* round a finite double to the (E, M, bias) grid, ties to even, gradual underflow, no upper bound on
\* the exponent field other than its width: [ovf, field]
RoundToGrid(b, E, M, bias) ==
  LET e == UVal(Sub(b, 1, 12))
      m == Sub(b, 12, 64)
      sig == <<1>> \o m
      te == (e - 1023) + bias
      k == IF te >= 1 THEN 0 ELSE 1 - te
      ext(i) == IF i <= k THEN 0 ELSE IF i - k <= 53 THEN sig[i - k] ELSE 0
      field == UBits(IF te >= 1 THEN te ELSE 0, E) \o [i \in 1..M |-> ext(i + 1)]
      guard == ext(M + 2)
      sticky == \E j \in (M + 3)..(k + 53) : ext(j) = 1
      up == guard = 1 /\ (sticky \/ field[E + M] = 1) IN
  IF e = 0 THEN [ovf |-> FALSE, field |-> Zeros(E + M)]
  ELSE IF te >= Pow2(E) THEN [ovf |-> TRUE, field |-> Ones(E + M)]
  ELSE IF k > M + 2 THEN [ovf |-> FALSE, field |-> Zeros(E + M)]
  ELSE IF ~up THEN [ovf |-> FALSE, field |-> field]
  ELSE IF field = Ones(E + M) THEN [ovf |-> TRUE, field |-> field]
  ELSE [ovf |-> FALSE, field |-> IncBits(field)]

\* bit-sequence comparison of equal-length unsigned fields
GreaterField(a, b) == \E i \in 1..Len(a) : a[i] = 1 /\ b[i] = 0 /\ \A j \in 1..(i - 1) : a[j] = b[j]

\* what the float is first turned into: its half precision rounding, or "overflow" when struct.pack('e')
\* refuses a finite value that is too large
HalfOf(b64) == Narrow(b64, 5, 10)
HalfOverflows(b64) == ~IsNaN64(b64) /\ ~IsInf64(b64) /\ Sub(HalfOf(b64), 1, 16) = Ones(5) \o Zeros(10)

\* code for positive / negative overflow (also used for infinities)
OverflowCode(f, s, mx) ==
  CASE f.kind = "binary8" -> <<s>> \o Ones(7)                                   \* +-inf codes
    [] f.kind = "e4m3" -> IF mx = "saturate" THEN <<s>> \o MaxFiniteField(f) ELSE Ones(8)    \* NaN for both signs
    [] f.kind = "e5m2" -> IF mx = "saturate" THEN <<s>> \o MaxFiniteField(f) ELSE <<s, 1, 1, 1, 1, 1, 0, 0>>
    [] OTHER -> <<s>> \o MaxFiniteField(f)

\* C11 encode: [ok, code]
MiniEncode(name, b64, mx) ==
  IF name = "e8m0mxfp" THEN
     (IF IsNaN64(b64) THEN Good(Ones(8))
      ELSE LET e == UVal(Sub(b64, 1, 12)) IN
           IF b64[1] = 0 /\ (\A i \in 13..64 : b64[i] = 0) /\ e - 1023 >= -127 /\ e - 1023 <= 127 /\ e # 0 /\ e # 2047
             THEN Good(UBits(e - 1023 + 127, 8)) ELSE Bad)
  ELSE IF name = "mxint" THEN
     (IF IsNaN64(b64) THEN Bad
      ELSE LET s == b64[1]
               e == UVal(Sub(b64, 1, 12))
               sig == <<1>> \o Sub(b64, 12, 64)
               x == e - 1023 + 6                       \* 64*f = 1.m * 2^x
               \* integer part has x+1 bits (x >= 0); below that the value is < 1
               ip == IF x >= 0 THEN UVal(Sub(sig, 0, MinI(x + 1, 9))) ELSE 0
               guard == IF x >= -1 THEN sig[x + 2] ELSE 0
               sticky == \E j \in (MaxI(x + 3, 1))..53 : sig[j] = 1
               up == guard = 1 /\ (sticky \/ ip % 2 = 1)
               r == ip + (IF up THEN 1 ELSE 0) IN
           IF e = 0 THEN Good(Zeros(8))
           ELSE IF e = 2047 \/ x >= 8 THEN Good(IF s = 0 THEN <<0>> \o Ones(7) ELSE <<1>> \o Zeros(7))
           ELSE IF s = 0 THEN Good(IF r > 127 THEN <<0>> \o Ones(7) ELSE UBits(r, 8))
           ELSE Good(IF r >= 128 THEN <<1>> \o Zeros(7) ELSE IF r = 0 THEN Zeros(8) ELSE TwosNeg(UBits(r, 8))))
  ELSE
     LET f == MiniFmt(name)
         s == b64[1] IN
     IF IsNaN64(b64) THEN
        (CASE f.kind \in {"e4m3", "e5m2"} -> Good(Ones(8))
           [] f.kind = "binary8" -> Good(<<1>> \o Zeros(7))
           [] OTHER -> Bad)
     ELSE IF IsInf64(b64) \/ HalfOverflows(b64) THEN Good(OverflowCode(f, s, mx))
     ELSE LET h == Widen(HalfOf(b64), 5, 10)
              r == RoundToGrid(h, f.E, f.M, f.bias)
              over == r.ovf \/ GreaterField(r.field, MaxFiniteField(f)) IN
          IF over THEN Good(OverflowCode(f, s, mx))
          ELSE IF f.kind = "binary8" /\ r.field = Zeros(7) THEN Good(Zeros(8))      \* single zero
          ELSE Good(<<s>> \o r.field)

\* dtype interface used by EncodeDtype / DecodeDtype extensions
MiniVal(name, code) == VFloat(IF name = "e8m0mxfp" THEN E8M0Decode(code) ELSE MiniDecode(name, code))
=============================================================================
