SPECIFICATION Spec
CONSTANT L = 8
INVARIANT Involution
INVARIANT XorSelf
INVARIANT Idempotent
INVARIANT DeMorgan
INVARIANT Commutative
INVARIANT XorViaAndOr
INVARIANT Arithmetic
INVARIANT ShiftArithmetic
INVARIANT ShiftLength
INVARIANT ShiftOut
INVARIANT UBitsRoundTrip
CHECK_DEADLOCK FALSE
