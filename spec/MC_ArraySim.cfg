SPECIFICATION SimSpec
CONSTANT N = 3
CONSTANT NDt = 2
CONSTANT Depth = 8
INVARIANT DtypeKept
CHECK_DEADLOCK FALSE
