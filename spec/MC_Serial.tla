----------------------------- MODULE MC_Serial -----------------------------
(***************************************************************************)
(* Role A for C17: tobytes is the bits plus 0-7 zero bits and nothing      *)
(* else; reading a window of the written bytes back recovers exactly the   *)
(* selected bits; writing in chunks equals writing at once exactly when    *)
(* the chunk size is a whole number of bytes.  Every content up to L bits. *)
(***************************************************************************)
EXTENDS Serial
CONSTANT L
VARIABLES v, off, len, chunk
vars == <<v, off, len, chunk>>
Init == v \in BitsUpTo(L) /\ off \in 0..Len(v) /\ len \in 0..(Len(v) - off) /\ chunk \in {8, 16, 12, 5}
Next == UNCHANGED vars
Spec == Init /\ [][Next]_vars
BytesAsBits(bs) == FoldLeft(LAMBDA acc, b : acc \o UBits(b, 8), <<>>, bs)
PaddedOnly ==
  LET b == BytesAsBits(ToBytesOf(v)) IN
  /\ Len(b) = 8 * CeilDiv(Len(v), 8)
  /\ Sub(b, 0, Len(v)) = v
  /\ \A i \in (Len(v) + 1)..Len(b) : b[i] = 0
WindowRecovers == WindowOf(BytesAsBits(ToBytesOf(v)), off, len) = Sub(v, off, off + len)
ChunkingLossless == (chunk % 8 = 0) => ChunkedBytes(v, chunk) = ToBytesOf(v)
\* the converse: a chunk size that is not a whole number of bytes corrupts some content
ChunkingNeedsBytes == (chunk % 8 # 0 /\ Len(v) > chunk /\ v[Len(v)] = 1) => ChunkedBytes(v, chunk) # ToBytesOf(v)
WindowRejects == ~WindowOK(Len(v), Len(v) + 1, NoneI) /\ ~WindowOK(Len(v), off, Len(v) - off + 1)
                 /\ ~WindowOK(Len(v), -1, NoneI) /\ ~WindowOK(Len(v), off, -1)
=============================================================================
