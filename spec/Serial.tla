------------------------------- MODULE Serial -------------------------------
(***************************************************************************)
(* Byte and file serialisation (C17) and windows over byte sources (C15,   *)
(* C08): tobytes / bytes / tofile, and construction from bytes, BytesIO,   *)
(* bitarray, file names and file handles with offset and length.           *)
(***************************************************************************)
EXTENDS Format

ToBytesOf(v) == LET pb == PadToByte(v) IN [k \in 1..(Len(pb) \div 8) |-> UVal(Sub(pb, 8 * (k - 1), 8 * k))]

\* tofile written in chunks of `chunk` bits: each chunk is padded to a byte on its own.
\* (The shipped chunk size is a multiple of 8, so this equals ToBytesOf; MC_Serial checks exactly that.)
ChunkedBytes(v, chunk) ==
  LET nch == CeilDiv(Len(v), chunk) IN
  FoldLeft(LAMBDA acc, i : acc \o ToBytesOf(Sub(v, (i - 1) * chunk, MinI(i * chunk, Len(v)))), <<>>,
           [i \in 1..nch |-> i])

\* window [offset, offset+length) of a source of bits; NoneI = not given
WindowOK(total, off, len) ==
  LET o == OrElse(off, 0) IN
  o >= 0 /\ o <= total /\ (IsNone(len) \/ (len >= 0 /\ o + len <= total))
WindowOf(src, off, len) ==
  LET o == OrElse(off, 0) IN Sub(src, o, IF IsNone(len) THEN Len(src) ELSE o + len)

\* mkwin: sa = <<class, source kind>>, ia = <<offset, length, pos>>, xs = <<source bits (whole bytes)>>
DoMkWin(cls, kind, src, off, len, pos) ==
  IF ~WindowOK(Len(src), off, len) THEN Raises({"ValueError"})
  ELSE LET w == WindowOf(src, off, len) IN
       OkV(VObj(cls, w, IF IsStream(cls) THEN OrElse(pos, 0) ELSE -1))

\* Derivation routes (C04).  User-held buffers are not bitstring objects: creating and mutating them
\* must change no object at all (the trace validator checks the whole state after every event).
DeriveOps == {"setbits", "getbits", "mkext", "mkfromext", "extmut", "tobitarray", "packobj", "dtypebuild_bits",
              "dtypeparse_bits"}
DeriveStep(objs, opts, call) ==
  LET op == call.op
      o == objs[call.t] IN
  CASE op = "setbits" ->
         IF ~IsMutable(o.c) THEN Raises({"*", "Internal"})
         ELSE [OkNone(One(call.t, Rec(o.c, XV(objs, call.xs[1]), IF IsStream(o.c) THEN 0 ELSE -1))) EXCEPT !.free = {"pos"}]
    [] op = "getbits" -> OkV(VNew(o.c, o.v))
    [] op \in {"mkext", "extmut"} -> OkV(VNone)
    [] op = "mkfromext" -> OkV(VNew(call.sa[1], XV(objs, call.xs[1])))
    [] op = "tobitarray" -> OkV(VInts(o.v))
    [] op = "packobj" ->
         LET parts == [i \in 1..Len(call.xs) |-> XV(objs, call.xs[i])] \o [i \in 1..Len(call.ia) |-> UBits(call.ia[i], 8)]
             k == Len(parts) IN
         \* pack lays the tokens out in reverse order under lsb0
         OkV(VNew("BitStream", ConcatAll([i \in 1..k |-> parts[IF opts.lsb0 THEN k + 1 - i ELSE i]])))
    [] op = "dtypebuild_bits" -> OkV(VNew("Bits", XV(objs, call.xs[1])))
    [] op = "dtypeparse_bits" -> OkV(VNew("Bits", XV(objs, call.xs[1])))

SerialOps == {"tofile", "mkwin"}
SerialStep(objs, opts, call) ==
  LET op == call.op
      o == objs[call.t] IN
  CASE op = "tofile" -> OkV(VBytes(ToBytesOf(o.v)))
    [] op = "mkwin" -> DoMkWin(call.sa[1], call.sa[2], XV(objs, call.xs[1]), call.ia[1], call.ia[2], call.ia[3])
=============================================================================
