SPECIFICATION Spec
CONSTANT Obj = {o1, o2, o3}
CONSTANT Store = {s1, s2, s3, s4, s5, s6}
CONSTANT Key = {k1, k2}
CONSTANT CacheCap = 1
CONSTANT SetBitsCopies = TRUE
CONSTANT FromstringCopies = TRUE
CONSTANT ToBitarrayCopies = TRUE
CONSTANT CacheKeyHasOptions = FALSE
CONSTANT CtorCopiesImmutable = TRUE
INVARIANT TypeOK
PROPERTY ImmutableConst
PROPERTY OnlyTargetChanges
PROPERTY PureConstruction
CHECK_DEADLOCK FALSE
