------------------------------- MODULE Trace -------------------------------
(***************************************************************************)
(* Trace validation: every event recorded from the real bitstring package  *)
(* (harness/world.py) is checked against the Step function of the          *)
(* specification.  One TLC state per consumed event.                       *)
(*                                                                         *)
(* The verdict is total: a non-conforming event is reported as             *)
(*   <<"REJECT", tid, seq, clause>>                                        *)
(* and validation continues from the *logged* post-state, so the rest of   *)
(* the trace is still examined.  TraceAccepted (POSTCONDITION) checks that *)
(* every line of the file was consumed.                                    *)
(***************************************************************************)
EXTENDS Spec, Json, IOUtils, TLCExt

Events == ndJsonDeserialize(IOEnv.TRACE_FILE)
NEvents == Len(Events)

VARIABLES l,      \* index of the next event
          objs,   \* live objects according to the trace so far
          opts,   \* module options
          tid     \* program the previous event belonged to
vars == <<l, objs, opts, tid>>

NoObjs == [x \in {} |-> 0]
DefaultOpts == [lsb0 |-> FALSE, ba |-> FALSE, mx |-> "saturate"]

\* ev.post is a JSON object: a record (possibly empty)
PostIds(ev) == DOMAIN ev.post
\* Array objects carry their dtype (name, length in units) next to the data bits
ObsRec(r) == IF "dn" \in DOMAIN r THEN [c |-> r.c, v |-> r.v, p |-> r.p, dn |-> r.dn, dl |-> r.dl]
             ELSE [c |-> r.c, v |-> r.v, p |-> r.p]
IsNewObjVal(val) == IsVObj(val) \/ (Len(val) >= 4 /\ val[1] = 15)
Frozen(c) == c \in {"Bits", "ConstBitStream"}

\* state of the world as observed after the event
ObsObjs(o, ev) ==
  [id \in (DOMAIN o) \cup PostIds(ev) |-> IF id \in PostIds(ev) THEN ObsRec(ev.post[id]) ELSE o[id]]

\* ids of objects returned fresh by this call, with their expected records
FreshIdx(exp, ev) ==
  {i \in 1..Len(exp.vals) : IsNewObjVal(exp.vals[i]) /\ i <= Len(ev.out.alias) /\ ev.out.alias[i] = ""}

ExcOK(exp, ev) ==
  \/ \E c \in exp.exc : c \in ToSet(ev.out.exc)
  \/ "*" \in exp.exc /\ "Internal" \notin ToSet(ev.out.exc)

PosValid(r) == r.p = -1 \/ (0 <= r.p /\ r.p <= Len(r.v))

\* returned value i conforms
ValOK(exp, ev, i) ==
  LET e == exp.vals[i]
      g == ev.out.vals[i] IN
  IF IsVObj(e) /\ "retpos" \in exp.free /\ IsVObj(g)
    THEN g[2] = e[2] /\ SubSeq(g, 4, Len(g)) = SubSeq(e, 4, Len(e))
    ELSE g = e

\* a result that must be a new object may still be an existing *immutable* object
\* of the right value (immutable objects can be shared freely)
AliasOK(o, exp, ev, i) ==
  \/ ~IsNewObjVal(exp.vals[i])
  \/ exp.alias[i] = "?"
  \/ exp.alias[i] = ev.out.alias[i]
  \/ exp.alias[i] = "" /\ ev.out.alias[i] \in DOMAIN o /\ Frozen(o[ev.out.alias[i]].c)

\* Name of the first clause of the conformance relation that fails, or "ok".
Clause(o, op, ev) ==
  LET exp == Step(o, op, ev)
      obs == ObsObjs(o, ev)
      raised == ev.out.k = "raise"
      \* expected records of existing objects
      expUpd(id) == IF id \in DOMAIN exp.upd THEN exp.upd[id] ELSE o[id]
      \* when the call raised, nothing may change (except the listed alternatives)
      unchangedOK(id) == \/ obs[id] = o[id]
                         \/ id \in DOMAIN exp.alt /\ obs[id] \in exp.alt[id]
                         \/ "target" \in exp.free /\ id = ev.t
      okObj(id) == \/ obs[id] = expUpd(id)
                   \/ "target" \in exp.free /\ id = ev.t
                   \/ "pos" \in exp.free /\ obs[id].c = expUpd(id).c /\ obs[id].v = expUpd(id).v
                        /\ PosValid(obs[id])
      fresh == FreshIdx(exp, ev)
  IN
  CASE ev.opts.lsb0 # op.lsb0 \/ ev.opts.ba # op.ba \/ ev.opts.mx # op.mx -> "options-before"
    [] \E id \in PostIds(ev) : ev.post[id].n # Len(ev.post[id].v) -> "len-vs-bin"
    [] \E id \in PostIds(ev) : ~PosValid(ObsRec(ev.post[id])) -> "pos-invalid"
    [] ev.optsp.lsb0 # OptsAfter(op, ev).lsb0 \/ ev.optsp.ba # OptsAfter(op, ev).ba
         \/ ev.optsp.mx # OptsAfter(op, ev).mx -> "options-after"
    [] \E id \in DOMAIN o : Frozen(o[id].c) /\ (obs[id].v # o[id].v \/ obs[id].c # o[id].c)
         -> "immutable-changed"
    [] exp.k = "raise" /\ ~raised -> "expected-raise"
    [] exp.k = "ok" /\ raised -> "unexpected-raise"
    [] raised /\ ~ExcOK(exp, ev) -> "exception-type"
    [] raised /\ "upd" \notin exp.free /\ \E id \in DOMAIN o : ~unchangedOK(id) -> "changed-on-raise"
    [] raised /\ PostIds(ev) \ DOMAIN o # {} -> "object-created-on-raise"
    [] raised -> "ok"
    [] exp.pred # "" /\ ~PredOK(exp.pred, o, ev, ev.out.vals, ev.post) -> "relation"
    [] "vals" \notin exp.free /\ Len(ev.out.vals) # Len(exp.vals) -> "return-count"
    [] "vals" \notin exp.free /\ \E i \in 1..Len(exp.vals) : ~ValOK(exp, ev, i) -> "return-value"
    [] "vals" \notin exp.free /\ \E i \in 1..Len(exp.vals) : ~AliasOK(o, exp, ev, i) -> "return-identity"
    [] "upd" \notin exp.free /\ \E id \in DOMAIN o : ~okObj(id) -> "post-state"
    [] \E i \in 1..Len(ev.out.vals) :
         /\ i <= Len(ev.out.ids) /\ ev.out.ids[i] \in PostIds(ev) /\ IsNewObjVal(ev.out.vals[i])
         /\ LET r == ev.post[ev.out.ids[i]]  g == ev.out.vals[i] IN
            \/ r.v # SubSeq(g, 5, Len(g))
            \/ IsVObj(g) /\ (r.p # g[3] \/ r.c # CodeCls(g[2]))
            \/ ~IsVObj(g) /\ r.c # "Array" -> "returned-object-state"
    [] "upd" \notin exp.free /\ "vals" \notin exp.free
         /\ PostIds(ev) \ DOMAIN o # {ev.out.ids[i] : i \in fresh} -> "new-objects"
    [] exp.arr # <<>> /\ \E i \in fresh : ev.post[ev.out.ids[i]].c # "Array" \/ ev.post[ev.out.ids[i]].dn # exp.arr[1]
         \/ ev.post[ev.out.ids[i]].dl # exp.arr[2] -> "new-array-dtype"
    [] OTHER -> "ok"

Init == l = 1 /\ objs = NoObjs /\ opts = DefaultOpts /\ tid = -1

Next ==
  /\ l <= NEvents
  /\ LET ev == Events[l]
         \* a new program starts from an empty world with default options
         o0 == IF ev.tid # tid THEN NoObjs ELSE objs
         \* objects the program let go of before this call
         o == [id \in (DOMAIN o0) \ ToSet(ev.drop) |-> o0[id]]
         op == IF ev.tid # tid THEN DefaultOpts ELSE opts
         cl == Clause(o, op, ev) IN
     /\ IF cl = "ok" THEN TRUE ELSE PrintT(<<"REJECT", ev.tid, ev.seq, cl>>)
     /\ objs' = ObsObjs(o, ev)
     /\ opts' = [lsb0 |-> ev.optsp.lsb0, ba |-> ev.optsp.ba, mx |-> ev.optsp.mx]
     /\ tid' = ev.tid
     /\ l' = l + 1

TraceSpec == Init /\ [][Next]_vars

\* every event was consumed (diameter counts the initial state)
TraceAccepted == TLCGet("stats").diameter - 1 = NEvents
=============================================================================
