------------------------------ MODULE Gen_C01 ------------------------------
(***************************************************************************)
(* Role B for C01: TLC enumerates, exhaustively over small constants, the  *)
(* calls of the sequence alphabet that are enabled on every content of up  *)
(* to L bits.  The rows are replayed into the real classes by the harness  *)
(* (each on all four classes, by several construction routes) and the      *)
(* recorded events are judged by Trace.tla.                                *)
(***************************************************************************)
EXTENDS Spec, Json, IOUtils
CONSTANTS L,      \* contents up to L bits for slicing / indexing
          LP      \* contents up to LP bits for operand pairs
VARIABLE x
Idx == {NoneI} \cup (-(L + 2)..(L + 2))
Steps == {NoneI} \cup (-(L + 1)..(L + 1))          \* 0 included: must raise ValueError
Row(op, v, ia, w) == [op |-> op, v |-> v, ia |-> ia, w |-> w]
SliceRows == {Row("getslice", v, <<a, b, c>>, <<>>) : v \in BitsUpTo(L), a \in Idx, b \in Idx, c \in Steps}
ItemRows == {Row("getitem", v, <<i>>, <<>>) : v \in BitsUpTo(L), i \in (-(L + 3)..(L + 3))}
MulRows == {Row("mul", v, <<k>>, <<>>) : v \in BitsUpTo(L), k \in -2..6}
PairRows == {Row("add", v, <<>>, w) : v \in BitsUpTo(LP), w \in BitsUpTo(LP)}
ScalarRows == {Row("scalars", v, <<>>, <<>>) : v \in BitsUpTo(L)}
Rows == SliceRows \cup ItemRows \cup MulRows \cup PairRows \cup ScalarRows
ASSUME ndJsonSerialize(IOEnv.GEN_OUT, SetToSeq(Rows))
Init == x = Cardinality(Rows)
Next == UNCHANGED x
GenSpec == Init /\ [][Next]_x
=============================================================================
