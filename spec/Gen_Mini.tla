------------------------------ MODULE Gen_Mini ------------------------------
(***************************************************************************)
(* Roles A and B for C11.  Part "codes": every code of every 8/6/4-bit     *)
(* format, E8M0 and MXINT8 (decode rows; and the decoded value as an       *)
(* encode row) with the round-trip theorem checked on the specification.   *)
(* Part "half": half-precision inputs (every Stride-th pattern plus the    *)
(* neighbourhoods of every special value) for every format; the harness    *)
(* encodes each under both mxfp_overflow settings.  Monotonicity of the    *)
(* rounding is checked on consecutive patterns.                            *)
(***************************************************************************)
EXTENDS Spec, Json, IOUtils
CONSTANTS Part, Stride
VARIABLE row
NewRow(name, n, val) == [kind |-> "new", name |-> name, n |-> n, val |-> val, bits |-> <<>>]
PatRow(name, bits) == [kind |-> "interp", name |-> name, n |-> NoneI, val |-> <<0>>, bits |-> bits]
CodeRows(dummy) == UNION {{PatRow(name, c) : c \in BitsOfLen(MiniBits(name))} : name \in AllMiniNames}
            \cup UNION {{NewRow(name, MiniBits(name), MiniVal(name, c)) : c \in BitsOfLen(MiniBits(name))} : name \in AllMiniNames}
Special == {0, 1, 2, 1023, 1024, 1025, 31743, 31744, 31745, 32767, 32768, 32769, 33792, 64511, 64512, 64513, 65535,
            15360, 16384, 17408, 18432, 19456, 20480, 21504, 22528, 23552, 24576, 25600, 26624, 27648, 28672, 29696, 30720}
Near(k) == {j \in (k - 2)..(k + 2) : j >= 0 /\ j <= 65535}
HalfSet(st) == {j * st : j \in 0..(65535 \div st)} \cup UNION {Near(k) : k \in Special}
HalfRows(st) == {NewRow(name, MiniBits(name), VFloat(Widen(UBits(h, 16), 5, 10))) : h \in HalfSet(st), name \in AllMiniNames}
Rows == IF Part = "codes" THEN CodeRows(0) ELSE HalfRows(Stride)
ASSUME ndJsonSerialize(IOEnv.GEN_OUT, SetToSeq(Rows))
Init == row \in Rows
Next == UNCHANGED row
GenSpec == Init /\ [][Next]_row

\* C11: decoding then re-encoding any non-NaN code returns that code (except e5m2 infinities under
\* 'saturate', and the negative zero code of formats that have a single zero - none here)
RoundTrip ==
  (row.kind = "interp") =>
     LET v == MiniVal(row.name, row.bits)
         b == FloatBits(v) IN
     IsNaN64(b) \/
       /\ (~(row.name = "e5m2mxfp" /\ IsInf64(b))) => MiniEncode(row.name, b, "saturate") = Good(row.bits)
       /\ (~(row.name = "e4m3mxfp" /\ IsInf64(b))) => MiniEncode(row.name, b, "overflow") = Good(row.bits)
\* encoding never produces a NaN code from a number under 'saturate', and always produces a code of the right width
EncodeTotal ==
  (row.kind = "new") =>
     LET b == FloatBits(row.val)
         r == MiniEncode(row.name, b, "saturate") IN
     IF r.ok THEN Len(r.bits) = MiniBits(row.name) ELSE (row.name \in {"e8m0mxfp", "mxint", "e3m2mxfp", "e2m3mxfp", "e2m1mxfp"})
=============================================================================
