-------------------------------- MODULE Ref --------------------------------
(***************************************************************************)
(* The core Ref machine explored as a state graph (multi-step histories).  *)
(*                                                                         *)
(* State: three live objects - a BitStream "a", a BitArray "b" and an      *)
(* immutable Bits "c" - and the bit-numbering option.  A step is one call  *)
(* of the mutator / stream / token-read families of Calls.tla on "a" or "b" (operands: *)
(* literals, the target itself, or one of the other objects) or a toggle   *)
(* of options.lsb0; the new state is what CoreStep prescribes.             *)
(*                                                                         *)
(* Role A (MC_Ref*.cfg, exhaustive over every reachable state): the        *)
(* sentences of C03 / C04 / C06 / C20 that speak about *histories*:        *)
(* 0 <= pos <= len in every reachable state, classes never change, the     *)
(* immutable object never changes, a step changes at most its target, a    *)
(* raising step changes nothing, options change only by setopt.            *)
(* Role B (Record = TRUE, `tlc -simulate`): behaviours of the machine are  *)
(* printed as JSON histories; the harness replays each on the real classes *)
(* and Trace.tla judges every recorded event against the same CoreStep.    *)
(***************************************************************************)
EXTENDS Calls, Json
CONSTANTS LMax,     \* objects never grow beyond LMax bits
          LLit,     \* literal operands up to LLit bits
          Fams,     \* mutator families of Calls.tla that drive the machine
          Depth,    \* length of the printed behaviours (Record = TRUE)
          Record    \* TRUE: keep and print the history of calls
VARIABLES objs, opts, hist
vars == <<objs, opts, hist>>

Ids == {"a", "b", "c"}
Targets == {"a", "b"}
ObjRef(id) == [k |-> "obj", id |-> id]

AllMutFams == {"grow", "del", "setitem", "setslice", "range", "set", "replace"}
ASSUME Fams \subseteq AllMutFams
FamsFor(t) == IF t = "a" THEN Fams \cup {"stream", "tokread"} ELSE Fams
InplaceOnly(c) == c.op \notin {"inv", "and", "or", "xor", "rand", "ror_", "rxor", "lshift", "rshift"}

\* calls of the families on target t whose content is v: `a' in the family means `the target itself'
Retarget(c, t) ==
  [c EXCEPT !.t = t, !.xs = [i \in 1..Len(c.xs) |-> IF c.xs[i].k = "obj" THEN ObjRef(t) ELSE c.xs[i]]]
\* the calls taking one bitstring operand, tried with each other live object as that operand
WithOther(c, t, u) == [c EXCEPT !.t = t, !.xs = <<ObjRef(u)>>]
CallsOn(t, v) ==
  LET base == UNION {FamilyCalls(f, v, LLit, LLit) : f \in FamsFor(t)}
                \cup {c \in FamilyCalls("bitwise", v, LLit, LLit) : InplaceOnly(c)} IN
  {Retarget(c, t) : c \in base}
    \cup {WithOther(c, t, u) : c \in {d \in base : Len(d.xs) = 1 /\ d.xs[1].k = "lit" /\ d.xs[1].v = <<>>},
                               u \in Ids \ {t}}

DefaultOpts == [lsb0 |-> FALSE, ba |-> FALSE, mx |-> "saturate"]
SetLsb0(b) == [op |-> "setopt", t |-> "a", ia |-> <<IF b THEN 1 ELSE 0>>, sa |-> <<"lsb0", "options">>, va |-> <<>>, xs |-> <<>>]

Init ==
  /\ \E va \in BitsUpTo(2), vb \in BitsUpTo(2), vc \in {<<>>, <<1>>, <<0, 1>>}, p \in 0..2 :
       /\ p <= Len(va)
       /\ objs = [id \in Ids |-> CASE id = "a" -> Rec("BitStream", va, p)
                                   [] id = "b" -> Rec("BitArray", vb, -1)
                                   [] id = "c" -> Rec("Bits", vc, -1)]
  /\ opts = DefaultOpts
  /\ hist = [init |-> IF Record THEN objs ELSE <<>>, calls |-> <<>>, done |-> FALSE]

Apply(o, upd) == [id \in DOMAIN o |-> IF id \in DOMAIN upd THEN upd[id] ELSE o[id]]

DoCall(call) ==
  LET R == Step(objs, opts, call) IN
  /\ R.free = {}                                  \* only fully specified calls drive the machine
  /\ R.k \in {"ok", "raise"}
  /\ \A id \in DOMAIN R.upd : Len(R.upd[id].v) <= LMax
  /\ objs' = Apply(objs, R.upd)
  /\ opts' = OptsAfter(opts, call)
  /\ hist' = IF Record THEN [hist EXCEPT !.calls = Append(@, call)] ELSE hist

\* Role B: a complete behaviour is printed once, by the step that ends it
Done ==
  /\ Record /\ Len(hist.calls) = Depth /\ ~hist.done
  /\ PrintT(<<"HIST", ToJson([init |-> hist.init, calls |-> hist.calls])>>)
  /\ hist' = [hist EXCEPT !.done = TRUE]
  /\ UNCHANGED <<objs, opts>>

Next ==
  \/ /\ (Record => Len(hist.calls) < Depth)
     /\ \/ \E t \in Targets : \E call \in CallsOn(t, objs[t].v) : DoCall(call)
        \/ DoCall(SetLsb0(~opts.lsb0))
  \/ Done

Spec == Init /\ [][Next]_vars

---------------------------------------------------------------------------
PosOK(r) == r.p = -1 \/ (0 <= r.p /\ r.p <= Len(r.v))
\* C06 / C20: in every reachable state the position of every stream is valid, classes are what they were
PosValid == \A id \in Ids : PosOK(objs[id]) /\ (IsStream(objs[id].c) <=> objs[id].p >= 0)
ClassesFixed == objs["a"].c = "BitStream" /\ objs["b"].c = "BitArray" /\ objs["c"].c = "Bits"
Bounded == \A id \in Ids : Len(objs[id].v) <= LMax
\* C04: the immutable object never changes, whatever is done with it as an operand
ImmutableConst == [][objs'["c"] = objs["c"]]_vars
\* C03 / C04: a step changes at most one object (its target); operands are never updated
AtMostOneChanges == [][Cardinality({id \in Ids : objs'[id] # objs[id]}) <= 1]_vars
\* C06: every step, seen on the BitStream's (length, position) only, is one of the documented movements of
\* PosMachine.tla - whose invariant 0 <= pos <= len Apalache proves inductively for streams of any length
PM == INSTANCE PosMachine WITH len <- Len(objs["a"].v), pos <- objs["a"].p
RefinesPosMachine == [][PM!Next]_vars
\* C20: the options change only by the option call, and only the option named
OptsOnlyBySetopt == [][opts'.ba = opts.ba /\ opts'.mx = opts.mx]_vars
\* C12: toggling the mode twice without touching anything in between is the identity (no hidden mode state)
\* - holds by construction here (opts is the only mode state); Mech.tla / the C09 histories cover the caches.
=============================================================================
