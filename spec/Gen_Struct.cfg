SPECIFICATION GenSpec
CONSTANT K = 2
CHECK_DEADLOCK FALSE
INVARIANT StandardLayout
INVARIANT NativeAligned
INVARIANT PackSize
INVARIANT EndianReversal
INVARIANT RoundTrip
