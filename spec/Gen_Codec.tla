------------------------------ MODULE Gen_Codec ------------------------------
(***************************************************************************)
(* Role B generator for C02 / C10 / C15: TLC enumerates (dtype, length,    *)
(* value) triples - every integer from below the minimum to above the      *)
(* maximum for every width up to W, lengths that are zero, negative or not *)
(* allowed for the type, every short digit string, half-precision values   *)
(* for the float types, a window of integers for the exp-Golomb codes -    *)
(* and every bit pattern up to W bits as input for the interpretations.    *)
(* The harness sends each triple through every creation route and each     *)
(* pattern through every reading route; Trace.tla judges the events with   *)
(* EncodeDtype / DecodeDtype.                                              *)
(***************************************************************************)
EXTENDS Spec, Json, IOUtils
CONSTANTS Part, W
VARIABLE x

IntVal(i) == VInt(IF i < 0 THEN 1 ELSE 0, Strip(UBits(Abs(i), 24)))
NewRow(name, n, val) == [kind |-> "new", name |-> name, n |-> n, val |-> val, bits |-> <<>>]
PatRow(name, bits) == [kind |-> "interp", name |-> name, n |-> NoneI, val |-> <<0>>, bits |-> bits]

IntRows(WW) ==
  UNION {{NewRow(name, n, IntVal(v)) : v \in (-(Pow2(MaxI(n, 1) - 1)) - 2)..(Pow2(MaxI(n, 0)) + 1)} :
         name \in {"uint", "int"}, n \in (-1)..WW}
Boundary(n) == {0, 1, -1, 2, Pow2(n - 1) - 1, Pow2(n - 1), -Pow2(n - 1), -Pow2(n - 1) - 1, Pow2(n) - 1, Pow2(n),
                255, 256, -128, -129, 127, 128}
ByteIntRows(WW) ==
  UNION {{NewRow(name, n, IntVal(v)) : v \in Boundary(MaxI(n, 1))} :
         name \in {"uintbe", "intbe", "uintle", "intle", "uintne", "intne"}, n \in {8, 16, 24, 0, 4, 12, -8}}
Digs(base, k) == UNION {[1..j -> 0..(base - 1)] : j \in 0..k}
TextRows(WW) ==
  {NewRow("hex", n, <<4>> \o d) : d \in Digs(16, 2), n \in {NoneI, 8, 4, 0, 3}}
  \cup {NewRow("oct", n, <<5>> \o d) : d \in Digs(8, 2), n \in {NoneI, 6, 3, 0, 4}}
  \cup {NewRow("bin", n, <<6>> \o d) : d \in Digs(2, 4), n \in {NoneI, 0, 1, 2, 3, 4}}
  \cup {NewRow("bool", n, <<1, b>>) : b \in {0, 1}, n \in {NoneI, 1, 0, 2, 8}}
  \cup {NewRow("bytes", n, <<7>> \o d) : d \in {<<>>, <<0>>, <<255>>, <<1, 2>>, <<128, 0, 127>>}, n \in {NoneI, 0, 1, 2, 3}}
\* float values: half-precision patterns widened to doubles (exactly representable in all three sizes)
HalfPatterns(stepp) == {UBits(k, 16) : k \in {j * stepp : j \in 0..(65535 \div stepp)}}
                       \cup {UBits(k, 16) : k \in {0, 1, 2, 1023, 1024, 1025, 31743, 31744, 31745, 32768, 32769, 33792, 64511, 64512, 64513, 65535, 15360, 48128}}
FloatRows(WW) ==
  {NewRow(name, n, VFloat(Widen(h, 5, 10))) : h \in HalfPatterns(257),
       name \in {"float", "floatle", "floatne"}, n \in {16, 32, 64}}
  \cup {NewRow(name, n, VFloat(Widen(h, 5, 10))) : h \in HalfPatterns(2111), name \in {"float", "floatle"}, n \in {0, 8, 24, 48, 128, NoneI}}
  \cup {NewRow(name, n, VFloat(Widen(h, 5, 10))) : h \in HalfPatterns(509), name \in {"bfloat", "bfloatle", "bfloatne"}, n \in {16, NoneI}}
  \cup {NewRow("bfloat", n, VFloat(Widen(h, 5, 10))) : h \in HalfPatterns(8191), n \in {8, 32, 0}}
GolombRows(WW) ==
  {NewRow(name, NoneI, IntVal(v)) : name \in GolombNames, v \in -40..70}
  \cup {NewRow(name, n, IntVal(v)) : name \in GolombNames, v \in {0, 3}, n \in {1, 8}}
PatRows(WW) ==
  {PatRow(name, b) : name \in {"uint", "int", "bin", "hex", "oct", "bool", "bits"}, b \in BitsUpTo(WW)}
  \cup {PatRow(name, b) : name \in {"uintbe", "intbe", "uintle", "intle", "uintne", "intne", "bytes"}, b \in BitsOfLen(8)}
  \cup {PatRow(name, UBits(k * 251 % 65536, 16)) : name \in {"uintle", "intle", "intbe", "float", "floatle", "bfloat", "bfloatle", "bytes", "hex"},
            k \in 0..300}
  \cup {PatRow(name, b) : name \in GolombNames, b \in BitsUpTo(MinI(WW, 9))}

Rows == CASE Part = "int" -> IntRows(W) \cup ByteIntRows(W)
          [] Part = "text" -> TextRows(W)
          [] Part = "float" -> FloatRows(W)
          [] Part = "golomb" -> GolombRows(W)
          [] Part = "pattern" -> PatRows(W)
ASSUME ndJsonSerialize(IOEnv.GEN_OUT, SetToSeq(Rows))
Init == x = Cardinality(Rows)
Next == UNCHANGED x
GenSpec == Init /\ [][Next]_x
=============================================================================
