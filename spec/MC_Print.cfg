SPECIFICATION Spec
CONSTANT L = 10
CHECK_DEADLOCK FALSE
INVARIANT StrHolds
INVARIANT StrDiscriminates
INVARIANT ReprHolds
INVARIANT PPHolds
INVARIANT PPDiscriminates
