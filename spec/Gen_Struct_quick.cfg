SPECIFICATION GenSpec
CONSTANT K = 1
CHECK_DEADLOCK FALSE
INVARIANT StandardLayout
INVARIANT NativeAligned
INVARIANT PackSize
INVARIANT EndianReversal
INVARIANT RoundTrip
