------------------------------ MODULE Gen_Core ------------------------------
(***************************************************************************)
(* Role B generator for the core call alphabet.  For a chosen family of    *)
(* calls (Calls.tla) TLC enumerates every abstract state (content up to L  *)
(* bits; every stream position for the stream family) and every call of    *)
(* the family enabled in it.  Each row is one edge (state, call) of the    *)
(* Ref machine; the harness builds the state directly, performs the call   *)
(* on the real classes and Trace.tla judges the recorded events.           *)
(***************************************************************************)
EXTENDS Calls, Json, IOUtils
CONSTANTS Family,  \* which call family to enumerate
          L,       \* contents up to L bits
          LX       \* operands up to LX bits
VARIABLE x
Rows == FamilyRows(Family, L, LX)
ASSUME ndJsonSerialize(IOEnv.GEN_OUT, SetToSeq(Rows))
Init == x = Cardinality(Rows)
Next == UNCHANGED x
GenSpec == Init /\ [][Next]_x
=============================================================================
