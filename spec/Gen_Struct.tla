----------------------------- MODULE Gen_Struct -----------------------------
(***************************************************************************)
(* Roles A and B for C18.  TLC enumerates every struct prefix x every      *)
(* sequence of up to K codes with values at the range limits (and just     *)
(* outside), writes them out for replay through pack / unpack / .bytes of  *)
(* the real library, and checks on every row the layout theorems of the    *)
(* specification: total size, alignment under '@', no padding otherwise,   *)
(* and that the little-endian encoding of each item is the byte reversal   *)
(* of its big-endian encoding.                                             *)
(***************************************************************************)
EXTENDS Spec, Json, IOUtils
CONSTANT K
VARIABLE row
Codes == {"b", "B", "h", "H", "l", "L", "i", "I", "q", "Q", "e", "f", "d"}
StructPrefixes == {">", "<", "=", "@"}
IntV(neg, mag) == VInt(neg, Strip(mag))
Bits(code) == 8 * StdSize(code)
Vals(code) ==
  IF CodeKind(code) = "float" THEN {VFloat(Widen(UBits(15872, 16), 5, 10)), VFloat(<<1>> \o Zeros(63)), VFloat(Zeros(64)),
                                     VFloat(Widen(UBits(1, 16), 5, 10))}
  ELSE IF CodeKind(code) = "uint" THEN {IntV(0, <<>>), IntV(0, Ones(Bits(code))), IntV(0, <<1>> \o Zeros(Bits(code)))}
  ELSE {IntV(1, <<1>> \o Zeros(Bits(code) - 1)), IntV(0, Ones(Bits(code) - 1)), IntV(1, <<1>>), IntV(0, <<1>> \o Zeros(Bits(code) - 1))}
CodeSeqs == UNION {[1..k -> Codes] : k \in 1..K}
ValSeqs(cs) == IF Len(cs) = 1 THEN {<<v>> : v \in Vals(cs[1])}
               ELSE IF Len(cs) = 2 THEN {<<v, w>> : v \in Vals(cs[1]), w \in Vals(cs[2])}
               ELSE {<<v, w, u>> : v \in Vals(cs[1]), w \in Vals(cs[2]), u \in {CHOOSE z \in Vals(cs[3]) : TRUE}}
Rows == UNION {UNION {{[sa |-> <<p>> \o cs, va |-> vs] : vs \in ValSeqs(cs)} : cs \in CodeSeqs} : p \in StructPrefixes}
ASSUME ndJsonSerialize(IOEnv.GEN_OUT, SetToSeq(Rows))
Init == row \in Rows
Next == UNCHANGED row
GenSpec == Init /\ [][Next]_row

prefix == row.sa[1]
codes == SubSeq(row.sa, 2, Len(row.sa))
toks == StructToks(prefix, codes)
Opts0 == [lsb0 |-> FALSE, ba |-> FALSE, mx |-> "saturate"]
P == DoPack(Opts0, "BitStream", toks, row.va)
\* standard prefixes: items are laid out back to back in standard sizes
StandardLayout ==
  prefix # "@" => /\ \A i \in 1..Len(toks) : ~IsPad(toks[i])
                  /\ SumSeq([i \in 1..Len(toks) |-> TokLen(toks[i])]) = 8 * SumSeq([i \in 1..Len(codes) |-> StdSize(codes[i])])
\* native prefix: every item starts at a multiple of its native size
NativeAligned ==
  prefix = "@" =>
    \A i \in 1..Len(toks) : ~IsPad(toks[i]) =>
       (SumSeq([j \in 1..(i - 1) |-> TokLen(toks[j])]) % TokLen(toks[i])) = 0
\* in-range values pack to whole bytes of the right total size; out-of-range values are refused
PackSize ==
  IF P.k = "ok" THEN Len(ObjOfVal(P.vals[1]).v) = SumSeq([i \in 1..Len(toks) |-> TokLen(toks[i])])
  ELSE \E i \in 1..Len(row.va) : \E j \in 1..Len(toks) :
         ~IsPad(toks[j]) /\ ~EncodeDtype(toks[j].nm, toks[j].n, row.va[i]).ok
\* little-endian item = byte reversal of the big-endian item
EndianReversal ==
  (prefix = "<" /\ Len(codes) = 1) =>
     LET B == DoPack(Opts0, "BitStream", StructToks(">", codes), row.va) IN
     (P.k = "ok") = (B.k = "ok") /\ (P.k = "ok" => ObjOfVal(P.vals[1]).v = ByteRev(ObjOfVal(B.vals[1]).v))
\* unpack inverts pack (NaN-free values)
RoundTrip ==
  P.k = "ok" => LET U == DoParse("p", ObjOfVal(P.vals[1]), Opts0, toks, 0, FALSE) IN U.k = "ok" /\ U.vals = row.va
=============================================================================
