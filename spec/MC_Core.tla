------------------------------ MODULE MC_Core ------------------------------
(***************************************************************************)
(* Role A for C03 / C06 / C07 / C12 / C13 / C16: theorems of the Step      *)
(* function, checked by TLC on every (content, class, position, bit        *)
(* numbering mode, call) point of a family of Calls.tla.  These are the    *)
(* sentences of the properties that talk about *every* operation at once:  *)
(* frame conditions, validity of the stream position, "a raising call      *)
(* changes nothing", new streams start at 0, and the LSB0 mirror law.      *)
(* Each initial state is one point; the theorems are state invariants.     *)
(***************************************************************************)
EXTENDS Calls
CONSTANTS Family, L, LX
VARIABLES row, cls, p, lsb
vars == <<row, cls, p, lsb>>

ImmutableFamilies == {"search", "compare"}
ClsFor(fam) == IF fam = "search" THEN {"Bits", "BitStream"}
               ELSE IF fam \in ImmutableFamilies THEN Classes
               ELSE IF fam = "stream" THEN {"ConstBitStream", "BitStream"}
               ELSE {"BitArray", "BitStream"}

Init ==
  /\ row \in FamilyRows(Family, L, LX)
  /\ cls \in ClsFor(Family)
  /\ lsb \in BOOLEAN
  /\ p \in (IF IsStream(cls) THEN (IF row.p >= 0 THEN {row.p} ELSE 0..Len(row.v)) ELSE {-1})
Next == UNCHANGED vars
Spec == Init /\ [][Next]_vars

v == row.v
call == row.call
o == Rec(cls, v, p)
objs == One("a", o)
Opts(l) == [lsb0 |-> l, ba |-> FALSE, mx |-> "saturate"]
R == CoreStep(objs, Opts(lsb), call)
n == Len(v)
PosOK(r) == r.p = -1 \/ (0 <= r.p /\ r.p <= Len(r.v))
NewV == IF "a" \in DOMAIN R.upd THEN R.upd["a"].v ELSE v
NewP == IF "a" \in DOMAIN R.upd THEN R.upd["a"].p ELSE p
Constrained == R.free = {}

\* C06 / C20: 0 <= pos <= len after every operation; classes never change
PosValidAfter == Constrained => \A id \in DOMAIN R.upd : PosOK(R.upd[id]) /\ R.upd[id].c = cls
\* C06: every new stream object a call returns starts at 0 (non-streams have no pos)
NewObjectsAtZero ==
  Constrained => \A i \in 1..Len(R.vals) :
     (IsVObj(R.vals[i]) /\ R.alias[i] = "") =>
        R.vals[i][3] = (IF IsStream(CodeCls(R.vals[i][2])) THEN 0 ELSE -1)
\* C03 / C20: a call that raises changes nothing (except the listed partial application of set/invert)
RaiseNoChange == R.k = "raise" => R.upd = NoUpd
\* C04: immutable classes are never updated
ImmutableNeverUpdated == ~IsMutable(cls) => (R.upd = NoUpd \/ (Constrained /\ R.upd["a"].v = v))
\* len() of a returned / updated object is the length of its bits (encoding consistency)
LenConsistent == \A i \in 1..Len(R.vals) : IsVObj(R.vals[i]) => R.vals[i][4] = Len(R.vals[i]) - 4

\* C03: operations with a position or a [start, end) range never alter bits outside it and
\* never change the length
WinS == IF lsb THEN n - WinEnd(n, call.ia[IF call.op \in {"rol", "ror"} THEN 3 ELSE 2]) ELSE WinStart(n, call.ia[IF call.op \in {"rol", "ror"} THEN 2 ELSE 1])
WinE == IF lsb THEN n - WinStart(n, call.ia[IF call.op \in {"rol", "ror"} THEN 2 ELSE 1]) ELSE WinEnd(n, call.ia[IF call.op \in {"rol", "ror"} THEN 3 ELSE 2])
SameOutside(a, b) == Len(NewV) = n /\ \A i \in 1..n : (i - 1 < a \/ i - 1 >= b) => NewV[i] = v[i]
StoredPos(i) == IF lsb THEN n - 1 - NormIndex(n, i) ELSE NormIndex(n, i)
FrameOK ==
  (R.k = "ok" /\ Constrained) =>
    CASE call.op \in {"reverse", "rol", "ror"} -> SameOutside(WinS, WinE)
      [] call.op \in {"set", "invert"} /\ call.sa[1] = "int" ->
           LET i == call.ia[IF call.op = "set" THEN 2 ELSE 1] IN SameOutside(StoredPos(i), StoredPos(i) + 1)
      [] call.op = "setitem" /\ Len(call.xs) = 0 -> SameOutside(StoredPos(call.ia[1]), StoredPos(call.ia[1]) + 1)
      [] call.op \in {"ilshift", "irshift", "iand", "ior", "ixor"} -> Len(NewV) = n
      [] call.op \in {"set", "invert"} -> Len(NewV) = n
      [] call.op = "setslice" /\ ~(IsNone(call.ia[3]) \/ call.ia[3] = 1) -> Len(NewV) = n
      [] OTHER -> TRUE

\* C06: documented movements of the position
PosMoves ==
  (R.k = "ok" /\ Constrained /\ IsStream(cls) /\ IsMutable(cls)) =>
    CASE call.op \in {"append", "iadd"} -> NewP = Len(NewV)
      [] call.op \in {"prepend", "clear"} -> NewP = 0
      [] call.op \in {"delitem", "delslice", "setslice", "setitem", "replace"} ->
           NewP = (IF Len(NewV) # n THEN 0 ELSE p)
      [] call.op \in {"insert", "overwrite"} /\ Len(XV(objs, call.xs[1])) > 0 ->
           LET q0 == IF IsNone(call.ia[1]) THEN p ELSE call.ia[1]
               q == IF q0 < 0 THEN q0 + n ELSE q0 IN NewP = q + Len(XV(objs, call.xs[1]))
      [] call.op \in {"reverse", "rol", "ror", "set", "invert", "ilshift", "irshift", "iand", "ior", "ixor"} -> NewP = p
      [] OTHER -> TRUE

\* C06: reads consume exactly what they return; peeks leave pos alone; failures leave pos alone
ReadConsumes ==
  (IsStream(cls) /\ call.op \in {"readbits", "peekbits"}) =>
    IF R.k = "ok"
      THEN /\ ObjOfVal(R.vals[1]).v = (IF lsb THEN Rev(Sub(Rev(v), p, p + call.ia[1])) ELSE Sub(v, p, p + call.ia[1]))
           /\ NewP = (IF call.op = "readbits" THEN p + call.ia[1] ELSE p)
      ELSE NewP = p /\ (call.ia[1] > n - p => "ReadError" \in R.exc)
FindMovesToMatch ==
  (IsStream(cls) /\ call.op \in {"find", "rfind"} /\ R.k = "ok") =>
    IF Len(R.vals[1]) > 1 THEN NewP = R.vals[1][2] ELSE NewP = p

\* C07: find is the least and rfind the greatest element of findall; all matches really match
SearchConsistent ==
  (call.op \in {"find", "rfind"} /\ R.k = "ok" /\ ~lsb) =>
    LET pat == XV(objs, call.xs[1])
        ws == WinStart(n, call.ia[1])
        we == WinEnd(n, call.ia[2])
        hits == {q \in 0..n : q >= ws /\ q + Len(pat) <= we /\ Sub(v, q, q + Len(pat)) = pat} IN
    IF hits = {} THEN R.vals[1] = <<11>>
    ELSE R.vals[1] = <<11, IF call.op = "find" THEN Min(hits) ELSE Max(hits)>>

\* C12: LSB0 is a pure index mirror.  The same call on the bit-reversed operands in msb0 mode
\* gives the reversed results; shifts, rotations and value-level operations are identical.
RevX(x) == IF x.k = "lit" THEN [x EXCEPT !.v = Rev(x.v)] ELSE x
RevCall == [call EXCEPT !.xs = [i \in 1..Len(call.xs) |-> RevX(call.xs[i])]]
RM == CoreStep(One("a", Rec(cls, Rev(v), p)), Opts(FALSE), RevCall)
RevVal(val) == IF IsVObj(val) THEN SubSeq(val, 1, 4) \o Rev(SubSeq(val, 5, Len(val))) ELSE val
DirectionKeeping == {"rol", "ror", "lshift", "rshift", "ilshift", "irshift", "imul", "mul", "rmul", "inv",
                     "and", "or", "xor", "rand", "ror_", "rxor", "iand", "ior", "ixor", "eq", "ne", "eq_py",
                     "hasheq", "hashable", "inset", "count", "contains", "copy_m", "copy_c", "clear",
                     "getpos", "setpos", "bytealign", "split", "readto"}
MirrorLaw ==
  \* (integer values assigned to a slice are whole-value encodings and are not mirrored)
  (lsb /\ call.op \notin DirectionKeeping /\ Len(call.va) = 0 /\ Constrained /\ RM.free = {}) =>
    /\ R.k = RM.k
    /\ R.exc = RM.exc
    /\ Len(R.vals) = Len(RM.vals)
    /\ \A i \in 1..Len(R.vals) : R.vals[i] = RevVal(RM.vals[i])
    /\ DOMAIN R.upd = DOMAIN RM.upd
    /\ \A id \in DOMAIN R.upd : R.upd[id].v = Rev(RM.upd[id].v) /\ R.upd[id].p = RM.upd[id].p
\* ---- antecedents of the theorems above, named so that MC_CoreVac.tla can show each of them is met somewhere in
\* the enumerated space (a theorem whose antecedent never holds would be checked vacuously)
A_Raise == R.k = "raise"
A_OkConstrained == R.k = "ok" /\ Constrained
A_Updates == Constrained /\ R.upd # NoUpd
A_NewObject == Constrained /\ \E i \in 1..Len(R.vals) : IsVObj(R.vals[i]) /\ R.alias[i] = ""
A_FrameWindow == A_OkConstrained /\ call.op \in {"reverse", "rol", "ror"} /\ WinS < WinE
A_FrameOneBit == A_OkConstrained /\ ((call.op \in {"set", "invert"} /\ call.sa[1] = "int") \/ (call.op = "setitem" /\ Len(call.xs) = 0))
A_FrameLength == A_OkConstrained /\ call.op \in {"ilshift", "irshift", "iand", "ior", "ixor"}
A_PosToEnd == A_OkConstrained /\ IsStream(cls) /\ IsMutable(cls) /\ call.op \in {"append", "iadd"}
A_PosToZero == A_OkConstrained /\ IsStream(cls) /\ IsMutable(cls) /\ call.op \in {"delitem", "delslice", "setslice", "setitem", "replace"} /\ Len(NewV) # n
A_PosKept == A_OkConstrained /\ IsStream(cls) /\ IsMutable(cls) /\ call.op \in {"delitem", "delslice", "setslice", "setitem", "replace"} /\ Len(NewV) = n /\ p > 0
A_PosAfterWrite == A_OkConstrained /\ IsStream(cls) /\ IsMutable(cls) /\ call.op \in {"insert", "overwrite"} /\ Len(XV(objs, call.xs[1])) > 0
A_ReadOk == IsStream(cls) /\ call.op \in {"readbits", "peekbits"} /\ R.k = "ok" /\ call.ia[1] > 0
A_ReadFails == IsStream(cls) /\ call.op \in {"readbits", "peekbits"} /\ R.k = "raise" /\ call.ia[1] > n - p
A_FindHit == IsStream(cls) /\ call.op \in {"find", "rfind"} /\ R.k = "ok" /\ Len(R.vals[1]) > 1
A_FindMiss == IsStream(cls) /\ call.op \in {"find", "rfind"} /\ R.k = "ok" /\ Len(R.vals[1]) = 1
A_SearchHit == call.op \in {"find", "rfind"} /\ R.k = "ok" /\ ~lsb /\ Len(R.vals[1]) > 1
A_Mirror == lsb /\ call.op \notin DirectionKeeping /\ Len(call.va) = 0 /\ Constrained /\ RM.free = {} /\ n > 1
A_MirrorChanges == A_Mirror /\ R.k = "ok" /\ R # CoreStep(objs, Opts(FALSE), call)
A_ModeIndependent == call.op \in DirectionKeeping \ {"rol", "ror", "split", "readto"}
A_Immutable == ~IsMutable(cls)
Antecedents == [Raise |-> A_Raise, OkConstrained |-> A_OkConstrained, Updates |-> A_Updates, NewObject |-> A_NewObject,
                FrameWindow |-> A_FrameWindow, FrameOneBit |-> A_FrameOneBit, FrameLength |-> A_FrameLength,
                PosToEnd |-> A_PosToEnd, PosToZero |-> A_PosToZero, PosKept |-> A_PosKept, PosAfterWrite |-> A_PosAfterWrite,
                ReadOk |-> A_ReadOk, ReadFails |-> A_ReadFails, FindHit |-> A_FindHit, FindMiss |-> A_FindMiss,
                SearchHit |-> A_SearchHit, Mirror |-> A_Mirror, MirrorChanges |-> A_MirrorChanges,
                ModeIndependent |-> A_ModeIndependent, Immutable |-> A_Immutable]

\* shifts and whole-value operations do not depend on the mode at all
ModeIndependent ==
  (call.op \in DirectionKeeping \ {"rol", "ror", "split", "readto"}) =>
     CoreStep(objs, Opts(TRUE), call) = CoreStep(objs, Opts(FALSE), call)
=============================================================================
