------------------------------- MODULE Format -------------------------------
(***************************************************************************)
(* Format strings: pack, unpack, readlist / peeklist, token strings with   *)
(* embedded values, struct-style codes (C05, C18, and the token-list part  *)
(* of C06).                                                                *)
(*                                                                         *)
(* The specification works on the *flattened token list* of a format:      *)
(* multipliers, brackets, whitespace, the 'name:n' / 'namen' / keyword     *)
(* spellings and list-of-strings forms are syntax chosen by the harness    *)
(* renderer; the meaning of 'n*(f)' is f written n times and of 'f1, f2'   *)
(* the concatenation - which is what a flat list says.  A token is         *)
(*   [nm, n, hv, val]  name, length in units or NoneI, has-value flag,     *)
(*                     embedded value (encoded) when hv = 1                *)
(* Literal tokens (0x.., 0b.., 0o..) are nm = "lit" with val = <<8,..>>.   *)
(***************************************************************************)
EXTENDS Codec

CreationErr == {"ValueError"}
IsLit(tk) == tk.nm = "lit"
IsPad(tk) == Canon(tk.nm) = "pad"
Consumes(tk) == tk.hv = 0 /\ ~IsPad(tk) /\ ~IsLit(tk)
IsVarLen(tk) == Canon(tk.nm) \in GolombNames
\* a length-less token of a fixed-length type stretches over whatever is left
IsStretchy(tk) == ~IsLit(tk) /\ ~IsVarLen(tk) /\ IsNone(tk.n) /\ IsNone(DefaultLen(Canon(tk.nm)))

\* number of values consumed by tokens 1..i
ConsumedUpTo(toks, i) == Cardinality({j \in 1..i : Consumes(toks[j])})

\* value used for token i
TokValue(toks, vals, i) == IF toks[i].hv = 1 THEN toks[i].val ELSE vals[ConsumedUpTo(toks, i)]

\* bits of token i, as [ok, bits]
TokBitsM(toks, vals, i, mx) ==
  LET tk == toks[i] IN
  IF IsLit(tk) THEN Good(SubSeq(tk.val, 5, Len(tk.val)))
  ELSE IF IsPad(tk) THEN EncodeDtype("pad", tk.n, <<0>>)
  ELSE EncodeDtypeM(tk.nm, tk.n, TokValue(toks, vals, i), mx)
TokBits(toks, vals, i) == TokBitsM(toks, vals, i, "saturate")

ConcatAll(seqs) == FoldLeft(LAMBDA acc, q : acc \o q, <<>>, seqs)

\* pack(fmt, *values): BitStream of the token encodings in order (reverse order under lsb0)
DoPack(opts, cls, toks, vals) ==
  LET k == Len(toks)
      need == ConsumedUpTo(toks, k) IN
  IF need # Len(vals) THEN Raises(CreationErr)
  ELSE IF opts.lsb0 /\ \E i \in 1..k : IsVarLen(toks[i]) THEN Raises(AnyDoc)
  ELSE LET parts == [i \in 1..k |-> TokBitsM(toks, vals, i, opts.mx)] IN
       IF \E i \in 1..k : ~parts[i].ok THEN Raises(CreationErr)
       ELSE LET ordered == [i \in 1..k |-> parts[IF opts.lsb0 THEN k + 1 - i ELSE i].bits] IN
            OkV(VNew(cls, ConcatAll(ordered)))

\* fixed bit length of a token (only for tokens that have one)
TokLen(tk) == LET c == Canon(tk.nm)
                  n == IF IsNone(tk.n) THEN DefaultLen(c) ELSE tk.n IN
              IF IsLit(tk) THEN Len(tk.val) - 4 ELSE n * Unit(c)

\* Sequential interpretation of tokens from position p0 of the bits.
\* Accumulator: [pos, vals, st] with st \in {"ok", "read", "value", "error"}
ParseStep(o, lsb0, toks, acc, i) ==
  LET tk == toks[i]
      c == Canon(tk.nm)
      total == Len(o.v)
      rem == total - acc.pos
      after == SumSeq([j \in 1..(Len(toks) - i) |-> TokLen(toks[i + j])])
  IN
  IF acc.st # "ok" THEN acc
  ELSE IF IsVarLen(tk) THEN
       (IF ~IsNone(tk.n) THEN [acc EXCEPT !.st = "value"]
        ELSE LET r == DecGolombAt(c, o.v, acc.pos) IN
             IF ~r.ok THEN [acc EXCEPT !.st = "read"]
             ELSE [acc EXCEPT !.pos = r.next, !.vals = Append(acc.vals, r.val)])
  ELSE LET nbits == IF IsStretchy(tk) THEN MaxI(rem - after, 0) ELSE TokLen(tk) IN
       IF ~IsStretchy(tk) /\ ~IsLit(tk) /\ ~LenAllowed(c, IF IsNone(tk.n) THEN DefaultLen(c) ELSE tk.n)
         THEN [acc EXCEPT !.st = "value"]
       ELSE IF IsStretchy(tk) /\ nbits % Unit(c) # 0 THEN [acc EXCEPT !.st = "value"]
       ELSE IF nbits > rem THEN [acc EXCEPT !.st = "read"]
       ELSE LET w == Mir(lsb0, Sub(Mir(lsb0, o.v), acc.pos, acc.pos + nbits))
                r == DecodeDtype(tk.nm, w) IN
            IF c = "pad" THEN [acc EXCEPT !.pos = acc.pos + nbits]
            ELSE IF c = "bits" THEN [acc EXCEPT !.pos = acc.pos + nbits, !.vals = Append(acc.vals, VNew(o.c, w))]
            ELSE IF ~r.ok THEN [acc EXCEPT !.st = "value"]
            ELSE [acc EXCEPT !.pos = acc.pos + nbits, !.vals = Append(acc.vals, r.val)]

Parse(o, lsb0, toks, p0) ==
  FoldLeft(LAMBDA acc, i : ParseStep(o, lsb0, toks, acc, i),
           [pos |-> p0, vals |-> <<>>, st |-> "ok"], [i \in 1..Len(toks) |-> i])

\* structural rules: at most one stretchy token; no variable-length token after it
StretchyIdx(toks) == {i \in 1..Len(toks) : IsStretchy(toks[i])}
BadStructure(toks) ==
  \/ Cardinality(StretchyIdx(toks)) > 1
  \/ \E i \in StretchyIdx(toks) : \E j \in (i + 1)..Len(toks) : IsVarLen(toks[j])

\* unpack (from 0) / readlist / peeklist (from pos)
DoParse(t, o, opts, toks, fromPos, advance) ==
  LET hasGolomb == \E i \in 1..Len(toks) : IsVarLen(toks[i]) IN
  IF \E i \in 1..Len(toks) : IsLit(toks[i]) \/ toks[i].hv = 1 THEN Unconstrained
  ELSE IF BadStructure(toks) THEN Raises({"Error", "ValueError"})
  ELSE IF opts.lsb0 /\ hasGolomb THEN Raises(AnyDoc)
  ELSE LET r == Parse(o, opts.lsb0, toks, fromPos) IN
       IF r.st = "read" THEN Raises({"ReadError"})
       ELSE IF r.st # "ok" THEN Raises(AnyDoc)
       ELSE Ok(r.vals, [i \in 1..Len(r.vals) |-> ""],
               IF advance THEN One(t, Rec(o.c, o.v, r.pos)) ELSE NoUpd)

---------------------------------------------------------------------------
(* struct-style codes (C18).  '<' '>' '=' use standard sizes; '@' uses the *)
(* platform's native sizes and alignment (constants of this platform:      *)
(* LP64 little endian - checked against struct.calcsize by the harness).   *)

StdSize(code) == CASE code \in {"b", "B"} -> 1 [] code \in {"h", "H", "e"} -> 2
                   [] code \in {"i", "I", "l", "L", "f"} -> 4 [] code \in {"q", "Q", "d"} -> 8
NativeSize(code) == IF code \in {"l", "L"} THEN 8 ELSE StdSize(code)
CodeKind(code) == CASE code \in {"b", "h", "i", "l", "q"} -> "int"
                    [] code \in {"B", "H", "I", "L", "Q"} -> "uint" [] OTHER -> "float"
EndianSuffix(prefix) == CASE prefix = ">" -> "be" [] prefix = "<" -> "le"
                          [] OTHER -> (IF NativeLittle THEN "le" ELSE "be")
CodeName(prefix, code, size) ==
  IF size = 1 THEN CodeKind(code)            \* int8 / uint8 have no endianness
  ELSE IF CodeKind(code) = "float" THEN (IF EndianSuffix(prefix) = "be" THEN "float" ELSE "floatle")
  ELSE CodeKind(code) \o EndianSuffix(prefix)
Tok(nm, n) == [nm |-> nm, n |-> n, hv |-> 0, val |-> <<0>>]
\* token list for a sequence of codes; '@' inserts alignment padding before each item
StructToks(prefix, codes) ==
  LET native == prefix = "@"
      size(i) == IF native THEN NativeSize(codes[i]) ELSE StdSize(codes[i])
      \* offset of item i after alignment (bytes)
      offs == FoldLeft(LAMBDA acc, i :
                         LET start == IF native THEN CeilDiv(acc.end, size(i)) * size(i) ELSE acc.end IN
                         [end |-> start + size(i), starts |-> Append(acc.starts, start), ends |-> Append(acc.ends, start + size(i))],
                       [end |-> 0, starts |-> <<>>, ends |-> <<>>], [i \in 1..Len(codes) |-> i])
      item(i) == LET gap == offs.starts[i] - (IF i = 1 THEN 0 ELSE offs.ends[i - 1]) IN
                 (IF gap > 0 THEN <<Tok("pad", 8 * gap)>> ELSE <<>>)
                 \o <<Tok(CodeName(prefix, codes[i], size(i)), 8 * size(i))>>
  IN ConcatAll([i \in 1..Len(codes) |-> item(i)])

---------------------------------------------------------------------------
FormatOps == {"pack", "newfmt", "unpack", "readlist", "peeklist", "packstruct", "unpackstruct"}
FormatStep(objs, opts, call) ==
  LET op == call.op
      o == objs[call.t] IN
  CASE op = "pack" -> DoPack(opts, "BitStream", call.tk, call.va)
    \* a token string is laid out in reading order in both modes (pack mirrors the order under lsb0, which
    \* C12 lists; the token-string constructor is not in that list and keeps the reading order); exp-Golomb
    \* tokens are refused in lsb0 mode as everywhere else
    [] op = "newfmt" ->
         IF opts.lsb0 /\ \E i \in 1..Len(call.tk) : IsVarLen(call.tk[i]) THEN Raises(AnyDoc)
         ELSE DoPack([opts EXCEPT !.lsb0 = FALSE], call.sa[1], call.tk, <<>>)
    [] op = "unpack" -> DoParse(call.t, o, opts, call.tk, 0, FALSE)
    [] op = "readlist" ->
         IF ~IsStream(o.c) THEN Raises({"*", "Internal"}) ELSE DoParse(call.t, o, opts, call.tk, o.p, TRUE)
    [] op = "peeklist" ->
         IF ~IsStream(o.c) THEN Raises({"*", "Internal"}) ELSE DoParse(call.t, o, opts, call.tk, o.p, FALSE)
    [] op = "packstruct" ->
         DoPack(opts, "BitStream", StructToks(call.sa[1], SubSeq(call.sa, 2, Len(call.sa))), call.va)
    [] op = "unpackstruct" ->
         DoParse(call.t, o, opts, StructToks(call.sa[1], SubSeq(call.sa, 2, Len(call.sa))), 0, FALSE)
=============================================================================
