SPECIFICATION Spec
CONSTANT N = 2
CONSTANT NDt = 1
INVARIANT ListCommutes
INVARIANT TrailingKept
INVARIANT FailureKeeps
INVARIANT DtypeKept
CHECK_DEADLOCK FALSE
