----------------------------- MODULE MC_CoreVac -----------------------------
(***************************************************************************)
(* Non-vacuity of the theorems of MC_Core.tla: for the chosen family, which *)
(* of the named antecedents hold at some point of the enumerated space      *)
(* (content x class x position x mode x call).  Printed as one line per     *)
(* antecedent; the harness requires the ones that family is there to        *)
(* exercise (checks/common.py VAC_EXPECT).                                  *)
(***************************************************************************)
EXTENDS Calls, TLC
CONSTANTS Family, L, LX
P(r, c, pp, l) == INSTANCE MC_Core WITH row <- r, cls <- c, p <- pp, lsb <- l
Points == {<<r, c, l, pp>> \in FamilyRows(Family, L, LX) \X Classes \X BOOLEAN \X (-1..L) :
             /\ c \in P(r, c, pp, l)!ClsFor(Family)
             /\ pp \in (IF IsStream(c) THEN (IF r.p >= 0 THEN {r.p} ELSE 0..Len(r.v)) ELSE {-1})}
Names == DOMAIN P(CHOOSE r \in FamilyRows(Family, L, LX) : TRUE, "BitStream", 0, FALSE)!Antecedents
Met(name) == \E q \in Points : P(q[1], q[2], q[4], q[3])!Antecedents[name]
VARIABLE x
Init == x = 0 /\ \A name \in Names : PrintT(<<"VAC", name, Met(name)>>)
Next == UNCHANGED x
Spec == Init /\ [][Next]_x
=============================================================================
