SPECIFICATION SimSpec
CONSTANT Obj = {"o1", "o2", "o3"}
CONSTANT Store = {"s1", "s2", "s3", "s4", "s5", "s6", "s7", "s8", "s9"}
CONSTANT Key = {"k1", "k2"}
CONSTANT CacheCap = 1
CONSTANT SetBitsCopies = TRUE
CONSTANT FromstringCopies = TRUE
CONSTANT ToBitarrayCopies = TRUE
CONSTANT CacheKeyHasOptions = TRUE
CONSTANT CtorCopiesImmutable = TRUE
CONSTANT Depth = 10
INVARIANT TypeOK
CHECK_DEADLOCK FALSE
