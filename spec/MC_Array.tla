------------------------------ MODULE MC_Array ------------------------------
(***************************************************************************)
(* Role A for C14: the Array machine explored as a state graph.  States    *)
(* are Arrays of 2- or 3-bit integer items (up to N items, with or without *)
(* trailing bits); every list operation with indices in -(N+1)..N+1 and    *)
(* slices with steps is a transition.  Checked on every reachable state /  *)
(* transition:                                                             *)
(*   ListCommutes   decoding the new data gives the Python-list result of  *)
(*                  the operation applied to the decoded old items         *)
(*   TrailingKept   item get/set/delete, insert and pop never touch the    *)
(*                  trailing bits                                          *)
(*   FailureKeeps   an operation that raises leaves the Array unchanged    *)
(***************************************************************************)
EXTENDS Spec
CONSTANTS N, NDt
VARIABLES a, last
vars == <<a, last>>
Opts0 == [lsb0 |-> FALSE, ba |-> FALSE, mx |-> "saturate"]
IntV(i) == VInt(IF i < 0 THEN 1 ELSE 0, Strip(UBits(Abs(i), 8)))
Dts == IF NDt = 1 THEN {<<"int", 3>>} ELSE {<<"uint", 2>>, <<"int", 3>>}
ValsFor(dn) == IF NDt = 1 THEN {IntV(3), IntV(-5)}
               ELSE IF dn = "uint" THEN {IntV(0), IntV(3), IntV(4)} ELSE {IntV(-4), IntV(3), IntV(-5)}
Call(op, ia, va) == [op |-> op, t |-> "a", ia |-> ia, sa |-> <<>>, va |-> va, xs |-> <<>>, tk |-> <<>>]
Idx == (-(N + 1))..(N + 1)
OptIdx == {NoneI} \cup Idx
Calls(arr) ==
  {Call("asetitem", <<i>>, <<v>>) : i \in Idx, v \in ValsFor(arr.dn)}
  \cup {Call("adelitem", <<i>>, <<>>) : i \in Idx}
  \cup {Call("ainsert", <<i>>, <<v>>) : i \in Idx, v \in ValsFor(arr.dn)}
  \cup {Call("apop", <<i>>, <<>>) : i \in OptIdx}
  \cup {Call("aappend", <<>>, <<v>>) : v \in ValsFor(arr.dn)}
  \cup {Call("areverse", <<>>, <<>>)}
  \cup {Call("adelslice", <<x, y, c>>, <<>>) : x \in {NoneI, 0, 1, -1}, y \in {NoneI, 2, -1}, c \in {NoneI, 1, 2, -1, -2}}
  \cup {Call("asetslice", <<x, y, c>>, vs) : x \in {NoneI, 1, -1}, y \in {NoneI, 2}, c \in {NoneI, 2, -1},
                                             vs \in {<<>>, <<IntV(1)>>, <<IntV(1), IntV(2)>>}}
InitArrays == {ARec(d[1], d[2], v) : d \in Dts, v \in UNION {BitsOfLen(k) : k \in {0, 2, 3, 4, 6, 7}}}
Init == a \in InitArrays /\ last = [op |-> "init", pre |-> <<>>, res |-> <<>>]
Step1(arr, c) == ArrayStep(One("a", arr), Opts0, c)
Next == \E c \in Calls(a) :
          LET r == Step1(a, c) IN
          /\ NItems(a) <= N
          /\ a' = IF "a" \in DOMAIN r.upd THEN r.upd["a"] ELSE a
          /\ last' = [op |-> c.op, pre |-> a, res |-> r, call |-> c]
Spec == Init /\ [][Next]_vars

Small(v) == SmallOf(v)
\* Python list model on the decoded items
ListModel(items, c) ==
  LET n == Len(items) IN
  CASE c.op = "asetitem" -> [items EXCEPT ![ListNorm(n, c.ia[1]) + 1] = c.va[1]]
    [] c.op = "adelitem" -> SeqDelSlice(items, ListNorm(n, c.ia[1]), ListNorm(n, c.ia[1]) + 1, 1)
    [] c.op = "ainsert" -> LET p == IF c.ia[1] < 0 THEN MaxI(c.ia[1] + n, 0) ELSE MinI(c.ia[1], n) IN
                           SubSeq(items, 1, p) \o <<c.va[1]>> \o SubSeq(items, p + 1, n)
    [] c.op = "apop" -> LET i == ListNorm(n, IF IsNone(c.ia[1]) THEN -1 ELSE c.ia[1]) IN
                        SubSeq(items, 1, i) \o SubSeq(items, i + 2, n)
    [] c.op = "aappend" -> Append(items, c.va[1])
    [] c.op = "areverse" -> [i \in 1..n |-> items[n + 1 - i]]
    [] c.op = "adelslice" -> SeqDelSlice(items, c.ia[1], c.ia[2], c.ia[3])
    [] c.op = "asetslice" -> IF IsNone(c.ia[3]) \/ c.ia[3] = 1 THEN SeqSetSlice1(items, c.ia[1], c.ia[2], c.va)
                             ELSE SeqSetSliceExt(items, c.ia[1], c.ia[2], c.ia[3], c.va)
ListCommutes ==
  (last.op # "init" /\ last.res.k = "ok") => ItemsOf(a) = ListModel(ItemsOf(last.pre), last.call)
TrailingKept ==
  (last.op \in {"asetitem", "adelitem", "ainsert", "apop", "adelslice", "asetslice"} /\ last.res.k = "ok")
     => Trailing(a) = Trailing(last.pre)
FailureKeeps == (last.op # "init" /\ last.res.k = "raise") => a = last.pre
DtypeKept == a.dn \in {"uint", "int"} /\ a.c = "Array"
=============================================================================
