------------------------------ MODULE Printable ------------------------------
(***************************************************************************)
(* Printable forms (C19).  The library chooses the layout of str() and     *)
(* pp(); the property only says what the text must *denote*.  The harness  *)
(* lexes the produced text into digit tokens and layout facts (a small     *)
(* trusted lexer); the relations below are evaluated by TLC on them.       *)
(*                                                                         *)
(*   str:  vals = << <<9, truncated>>, token, token, ... >>  tokens are    *)
(*         <<4, hex digits>> or <<6, bin digits>>                          *)
(*   repr: vals = << <<9, truncated>>, rebuilt object | <<9, length>> >>   *)
(*   pp:   vals = << <<9, escapes>>, d1, d2, groups1, linelens,            *)
(*                   groupsperline, trailing >>                            *)
(***************************************************************************)
EXTENDS ArraySpec

DigitWidth(tag) == CASE tag = 4 -> 4 [] tag = 5 -> 3 [] tag = 6 -> 1 [] OTHER -> 1
Denote(tokval) == FromDigits(SubSeq(tokval, 2, Len(tokval)), DigitWidth(tokval[1]))
DenoteAll(toks) == FoldLeft(LAMBDA acc, t : acc \o Denote(t), <<>>, toks)
IsPrefixOf(p, s) == Len(p) <= Len(s) /\ SubSeq(s, 1, Len(p)) = p
MaxPrintBits == 1000

\* C19: str() denotes the value when it is at most 1000 bits, otherwise it is marked as truncated
\* and what it shows is a prefix of the value
StrOK(o, vals) ==
  /\ Len(vals) >= 1 /\ vals[1][1] = 9
  /\ LET trunc == vals[1][2] = 1
         shown == DenoteAll(SubSeq(vals, 2, Len(vals))) IN
     IF Len(o.v) <= MaxPrintBits THEN ~trunc /\ shown = o.v
     ELSE trunc /\ IsPrefixOf(shown, o.v)

\* C19: evaluating repr() rebuilds an equal object of the same class and position; beyond 1000
\* bits it is marked with '...' and carries the true length
ReprOK(o, vals) ==
  /\ Len(vals) = 2 /\ vals[1][1] = 9
  /\ IF Len(o.v) <= MaxPrintBits THEN vals[1][2] = 0 /\ vals[2] = VObj(o.c, o.v, o.p)
     ELSE vals[1][2] = 1 /\ vals[2] = <<9, Len(o.v)>>

\* C19: pp prints, in order, exactly the digits of the data plus the reported trailing bits, never
\* splits a group, keeps lines within width unless a line holds a single group, no escapes if no_color.
\* Under lsb0 the groups are printed starting from the least significant end (each group still reads
\* most significant digit first) and the trailing bits are the most significant ones.
GroupsOf(d, sizes) ==
  \* the digits of d (after its tag) cut into consecutive groups of the given sizes
  [i \in 1..Len(sizes) |-> SubSeq(d, 2 + SumSeq(SubSeq(sizes, 1, i - 1)), 1 + SumSeq(SubSeq(sizes, 1, i)))]
SizesFor(d, gbits) ==
  \* group sizes (in digits) of a format whose groups were not reported: full groups, then the remainder
  LET per == IF gbits > 0 THEN gbits \div DigitWidth(d[1]) ELSE Len(d) - 1
      nd == Len(d) - 1
      full == IF per > 0 THEN nd \div per ELSE 0
      rest == IF per > 0 THEN nd % per ELSE 0 IN
  [i \in 1..(full + (IF rest > 0 THEN 1 ELSE 0)) |-> IF i <= full THEN per ELSE rest]
DataOf(d, sizes, lsb0) ==
  LET gs == GroupsOf(d, sizes)
      k == Len(gs)
      w == DigitWidth(d[1]) IN
  FoldLeft(LAMBDA acc, i : acc \o FromDigits(gs[IF lsb0 THEN k + 1 - i ELSE i], w), <<>>, [i \in 1..k |-> i])
WithTrailing(data, trailing, lsb0) == IF lsb0 THEN trailing \o data ELSE data \o trailing
PPOK(o, vals, gbits, width, nocolor, twoFormats, hasLen, lsb0) ==
  /\ Len(vals) = 7
  /\ LET esc == vals[1][2]
         d1 == vals[2]  d2 == vals[3]
         groups1 == SubSeq(vals[4], 2, Len(vals[4]))
         linelens == SubSeq(vals[5], 2, Len(vals[5]))
         perline == SubSeq(vals[6], 2, Len(vals[6]))
         trailing == SubSeq(vals[7], 2, Len(vals[7])) IN
     /\ SumSeq(groups1) = Len(d1) - 1
     /\ WithTrailing(DataOf(d1, groups1, lsb0), trailing, lsb0) = o.v
     /\ (twoFormats => WithTrailing(DataOf(d2, SizesFor(d2, gbits), lsb0), trailing, lsb0) = o.v)
     \* every group is whole; without an explicit group length the very last one may be shorter
     /\ (gbits > 0 => \A i \in 1..Len(groups1) :
            \/ groups1[i] * DigitWidth(d1[1]) = gbits
            \/ (~hasLen /\ i = Len(groups1) /\ groups1[i] * DigitWidth(d1[1]) < gbits))
     /\ (gbits > 0 => \A i \in 1..Len(linelens) : linelens[i] <= width \/ perline[i] <= 1)
     /\ (nocolor => esc = 0)
     /\ (gbits > 0 => Len(trailing) < gbits) /\ (~hasLen => trailing = <<>>)

\* Array repr evaluates back to an equal Array (unscaled dtype, finite items)
ARRec(val) == val

PrintOps == {"str_lex", "repr_eval", "pp_lex", "arepr_eval"}
Rel(name) == [Unconstrained EXCEPT !.k = "ok", !.exc = {}, !.pred = name]
PrintStep(objs, opts, call) ==
  CASE call.op = "str_lex" -> Rel("str")
    [] call.op = "repr_eval" -> Rel("repr")
    [] call.op = "pp_lex" -> [Rel("pp") EXCEPT !.k = "ok?", !.exc = {"ValueError", "Error"}]
    [] call.op = "arepr_eval" -> Rel("arepr")

\* evaluated by the trace validator when the call succeeded
PredOK(pred, objs, call, vals, post) ==
  LET o == objs[call.t] IN
  CASE pred = "str" -> StrOK(o, vals)
    [] pred = "repr" -> ReprOK(o, vals)
    [] pred = "pp" -> PPOK(o, vals, call.ia[1], call.ia[2], call.ia[3] = 1, call.ia[4] = 1, call.ia[6] = 1, call.opts.lsb0)
    [] pred = "arepr" -> Len(vals) = 2 /\ vals[1] = <<9, 1>> /\ vals[2] = <<15, 0, -1, Len(o.v)>> \o o.v
    [] OTHER -> TRUE
=============================================================================
