SPECIFICATION GenSpec
CONSTANT L = 5
CONSTANT LP = 4
CHECK_DEADLOCK FALSE
