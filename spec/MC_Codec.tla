------------------------------ MODULE MC_Codec ------------------------------
(***************************************************************************)
(* Role A for C02 / C10 / C15: the encoders and decoders of Codec.tla are  *)
(* mutually inverse, canonical and total over small but complete domains.  *)
(*  Mode "int":   every width 1..W, every pattern: Enc(Dec(p)) = p, range  *)
(*                classification, two's complement = arithmetic mod 2^n,   *)
(*                little-endian = byte reversal                            *)
(*  Mode "half":  every one of the 65536 half-precision patterns:          *)
(*                Narrow(Widen(p)) = p, widening is exact w.r.t. float32   *)
(*  Mode "golomb": every bit string up to W bits as decoder input          *)
(*                (totality, canonical re-encoding = prefix freeness),     *)
(*                every integer in a window as encoder input               *)
(***************************************************************************)
EXTENDS Codec
CONSTANTS Mode, W
VARIABLES p, name
vars == <<p, name>>

Names(mode) == CASE mode = "int" -> {"uint", "int", "uintbe", "intbe", "uintle", "intle", "hex", "oct", "bin", "bool", "bytes"}
                 [] mode = "half" -> {"float", "floatle", "bfloat", "bfloatle"}
                 [] mode = "halfq" -> {"float", "bfloat"}
                 [] mode = "golomb" -> GolombNames
Init == /\ name \in Names(Mode)
        /\ p \in (IF Mode = "half" THEN BitsOfLen(16)
                  ELSE IF Mode = "halfq" THEN {<<0>> \o q : q \in BitsOfLen(15)} ELSE BitsUpTo(W))
Next == UNCHANGED vars
Spec == Init /\ [][Next]_vars

n == Len(p)
D == DecodeDtype(name, p)
Applicable == IF Mode = "golomb" THEN FALSE
              ELSE IF name = "bytes" THEN n % 8 = 0
              ELSE IF name = "hex" THEN n % 4 = 0 ELSE IF name = "oct" THEN n % 3 = 0
              ELSE LenAllowed(Canon(name), n)
LenArg == IF name = "bytes" THEN n \div 8 ELSE n

\* C02: interpreting any pattern of a valid length and rebuilding reproduces the pattern
PatternRoundTrip ==
  Applicable =>
    /\ D.ok
    /\ (IsNaN64(IF D.val[1] = 3 THEN FloatBits(D.val) ELSE Zeros(64)) \/
        LET E == EncodeDtype(name, LenArg, D.val) IN E.ok /\ E.bits = p)
\* C15: a pattern of a length that is not allowed is refused, never reinterpreted
BadLengthRefused == (Mode # "golomb" /\ ~Applicable) => ~D.ok
\* C02: two's complement by the bit rule agrees with arithmetic modulo 2^n
TwosComplementArithmetic ==
  (Mode = "int" /\ name = "int" /\ n >= 1) =>
     LET v == D.val
         mag == UVal(IntMag(v)) IN
     UVal(p) = (IF IntNeg(v) = 1 THEN Pow2(n) - mag ELSE mag)
     /\ (IntNeg(v) = 1 => mag <= Pow2(n - 1)) /\ (IntNeg(v) = 0 => mag < Pow2(n - 1))
\* C02 / C18: the little-endian interpretation is the big-endian one of the byte-reversed bits
LittleIsReversedBig ==
  (name \in {"uintle", "intle"} /\ Applicable) =>
     D.val = DecodeDtype(IF name = "uintle" THEN "uintbe" ELSE "intbe", ByteRev(p)).val
\* C15: values just outside the range are refused; the limits themselves fit
RangeLimits ==
  (Mode = "int" /\ name \in {"uint", "int"} /\ n >= 1 /\ n <= 12) =>
     LET maxMag == IF name = "uint" THEN Ones(n) ELSE Strip(Ones(n - 1))
         overMag == IncMag(maxMag)
         minMag == IF name = "uint" THEN <<>> ELSE <<1>> \o Zeros(n - 1)
         underMag == IncMag(minMag) IN
     /\ EncodeDtype(name, n, VInt(0, maxMag)).ok
     /\ ~EncodeDtype(name, n, VInt(0, overMag)).ok
     /\ EncodeDtype(name, n, VInt(1, minMag)).ok
     /\ ~EncodeDtype(name, n, VInt(1, underMag)).ok
     /\ ~EncodeDtype(name, 0, VInt(0, <<>>)).ok
     /\ ~EncodeDtype(name, -1, VInt(0, <<>>)).ok

\* C02 floats: widening a half and narrowing it again is the identity; the float32 and
\* float64 encodings of a half value widen to the same double
HalfRoundTrip ==
  (Mode \in {"half", "halfq"} /\ name = "float") =>
     LET w == Widen(p, 5, 10) IN
     IsNaN64(w) \/ (/\ Narrow(w, 5, 10) = p
                    /\ Widen(Narrow(w, 8, 23), 8, 23) = w
                    /\ Narrow(w, 11, 52) = w)
BFloatRoundTrip ==
  (Mode \in {"half", "halfq"} /\ name = "bfloat") =>
     LET w == DecBFloat(p) IN IsNaN64(w) \/ EncBFloat(w) = p

\* C10: decoding is total; whatever decodes re-encodes to exactly the bits consumed
\* (so no codeword is a prefix of another and none accepts trailing bits as part of it)
GolombTotalCanonical ==
  Mode = "golomb" =>
     LET r == DecGolombAt(name, p, 0) IN
     IF r.ok THEN /\ r.next <= n
                  /\ EncGolomb(name, IntNeg(r.val), IntMag(r.val)) = Sub(p, 0, r.next)
                  /\ (name \in {"ue", "uie"} => IntNeg(r.val) = 0)
                  /\ (D.ok <=> r.next = n)
     ELSE ~D.ok
\* every proper prefix of a codeword is refused (truncated codes never decode)
GolombTruncated ==
  Mode = "golomb" =>
     LET r == DecGolombAt(name, p, 0) IN
     (r.ok /\ r.next = n) => \A k \in 0..(n - 1) : ~DecGolombAt(name, Sub(p, 0, k), 0).ok
=============================================================================
