SPECIFICATION Spec
CONSTANT Mode = "half"
CONSTANT W = 16
CHECK_DEADLOCK FALSE
INVARIANT PatternRoundTrip
INVARIANT BadLengthRefused
INVARIANT TwosComplementArithmetic
INVARIANT LittleIsReversedBig
INVARIANT RangeLimits
INVARIANT HalfRoundTrip
INVARIANT BFloatRoundTrip
INVARIANT GolombTotalCanonical
INVARIANT GolombTruncated
