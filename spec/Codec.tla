------------------------------- MODULE Codec -------------------------------
(***************************************************************************)
(* Value <-> bits: the canonical encodings of every fixed-length dtype     *)
(* (C02), range and size classification (C15), exponential-Golomb codes    *)
(* (C10), IEEE 754 narrowing / widening on bit patterns, and struct-code   *)
(* composition (C18).                                                      *)
(*                                                                         *)
(* TLC integers are 32 bit, so integers of any size are (sign, magnitude   *)
(* bit sequence) and floats are their 64-bit IEEE pattern; all arithmetic  *)
(* below is on bit sequences.  Values are in the flat encoding of          *)
(* harness/enc.py:  <<2, neg, mag...>> int, <<3, 64 bits>> float,          *)
(* <<4|5|6, digits...>> hex/oct/bin text, <<7, bytes...>>, <<1, b>> bool.  *)
(***************************************************************************)
EXTENDS Bitstring

---------------------------------------------------------------------------
(* Integers on bit sequences                                               *)

Strip(q) == IF \A i \in 1..Len(q) : q[i] = 0 THEN <<>>
            ELSE SubSeq(q, Min({i \in 1..Len(q) : q[i] = 1}), Len(q))
\* q + 1 (q without leading zeros; result without leading zeros)
IncMag(q) == IF \A i \in 1..Len(q) : q[i] = 1 THEN <<1>> \o Zeros(Len(q))
             ELSE LET k == Max({i \in 1..Len(q) : q[i] = 0}) IN
                  [i \in 1..Len(q) |-> IF i < k THEN q[i] ELSE IF i = k THEN 1 ELSE 0]
\* q - 1 for q > 0
DecMag(q) == LET k == Max({i \in 1..Len(q) : q[i] = 1}) IN
             Strip([i \in 1..Len(q) |-> IF i < k THEN q[i] ELSE IF i = k THEN 0 ELSE 1])
\* fixed-width increment (wraps never used)
IncBits(q) == LET k == Max({i \in 1..Len(q) : q[i] = 0}) IN
              [i \in 1..Len(q) |-> IF i < k THEN q[i] ELSE IF i = k THEN 1 ELSE 0]

VInt(neg, mag) == <<2, IF mag = <<>> THEN 0 ELSE neg>> \o mag
IntNeg(val) == val[2]
IntMag(val) == SubSeq(val, 3, Len(val))

FitsUint(neg, mag, w) == w >= 1 /\ (neg = 0 \/ mag = <<>>) /\ Len(mag) <= w
FitsSint(neg, mag, w) ==
  w >= 1 /\ (IF neg = 0 \/ mag = <<>> THEN Len(mag) <= w - 1
             ELSE Len(mag) < w \/ (Len(mag) = w /\ MagIsPow2(mag)))

DecUint(bits) == VInt(0, Strip(bits))
DecSint(bits) == IF bits[1] = 0 THEN VInt(0, Strip(bits)) ELSE VInt(1, Strip(TwosNeg(bits)))

---------------------------------------------------------------------------
(* Text digits and bytes                                                   *)

DigitBits(d, w) == UBits(d, w)
FromDigits(ds, w) == FoldLeft(LAMBDA acc, d : acc \o UBits(d, w), <<>>, ds)
ToDigits(bits, w) == [k \in 1..(Len(bits) \div w) |-> UVal(Sub(bits, w * (k - 1), w * k))]
ValDigits(val) == SubSeq(val, 2, Len(val))

---------------------------------------------------------------------------
(* IEEE 754 on bit patterns.  A format is (E exponent bits, M mantissa     *)
(* bits) with bias 2^(E-1)-1.  Narrow rounds a double to the format        *)
(* (round-to-nearest-even, gradual underflow, overflow to infinity);       *)
(* Widen is exact.                                                         *)

Bias(E) == Pow2(E - 1) - 1
IsNaN64(b) == UVal(Sub(b, 1, 12)) = 2047 /\ \E i \in 13..64 : b[i] = 1
IsInf64(b) == UVal(Sub(b, 1, 12)) = 2047 /\ \A i \in 13..64 : b[i] = 0
CanonNaN(E, M) == <<0>> \o Ones(E) \o <<1>> \o Zeros(M - 1)

Narrow(b, E, M) ==
  LET s == b[1]
      e == UVal(Sub(b, 1, 12))
      m == Sub(b, 12, 64)
      sig == <<1>> \o m                       \* 53 bit significand 1.m
      x == e - 1023
      te == x + Bias(E)
      k == IF te >= 1 THEN 0 ELSE 1 - te      \* right shift for gradual underflow
      ext(i) == IF i <= k THEN 0 ELSE IF i - k <= 53 THEN sig[i - k] ELSE 0
      field == UBits(IF te >= 1 THEN te ELSE 0, E) \o [i \in 1..M |-> ext(i + 1)]
      guard == ext(M + 2)
      sticky == \E j \in (M + 3)..(k + 53) : ext(j) = 1
      up == guard = 1 /\ (sticky \/ field[E + M] = 1)
  IN
  IF e = 2047 THEN (IF \A i \in 1..52 : m[i] = 0 THEN <<s>> \o Ones(E) \o Zeros(M) ELSE CanonNaN(E, M))
  ELSE IF e = 0 THEN <<s>> \o Zeros(E + M)                      \* +-0 and double subnormals
  ELSE IF te >= Pow2(E) - 1 THEN <<s>> \o Ones(E) \o Zeros(M)    \* overflow
  ELSE IF k > M + 2 THEN <<s>> \o Zeros(E + M)                   \* far below the smallest subnormal
  ELSE <<s>> \o (IF up THEN IncBits(field) ELSE field)

Widen(b, E, M) ==
  LET s == b[1]
      e == UVal(Sub(b, 1, 1 + E))
      m == Sub(b, 1 + E, 1 + E + M)
      pad(q) == q \o Zeros(52 - Len(q))
  IN
  IF e = Pow2(E) - 1 THEN
     (IF \A i \in 1..M : m[i] = 0 THEN <<s>> \o Ones(11) \o Zeros(52) ELSE <<0>> \o Ones(11) \o <<1>> \o Zeros(51))
  ELSE IF e = 0 THEN
     (IF \A i \in 1..M : m[i] = 0 THEN <<s>> \o Zeros(63)
      ELSE LET j == Min({i \in 1..M : m[i] = 1}) IN
           <<s>> \o UBits((1 - Bias(E)) - j + 1023, 11) \o pad(Sub(m, j, M)))
  ELSE <<s>> \o UBits(e - Bias(E) + 1023, 11) \o pad(m)

FloatBits(val) == SubSeq(val, 2, 65)
VFloat(b64) == <<3>> \o (IF IsNaN64(b64) THEN <<0>> \o Ones(11) \o <<1>> \o Zeros(51) ELSE b64)
FloatEM(n) == CASE n = 16 -> <<5, 10>> [] n = 32 -> <<8, 23>> [] n = 64 -> <<11, 52>>
EncFloat(b64, n) == IF n = 64 THEN b64 ELSE Narrow(b64, FloatEM(n)[1], FloatEM(n)[2])
DecFloat(bits) == IF Len(bits) = 64 THEN bits ELSE Widen(bits, FloatEM(Len(bits))[1], FloatEM(Len(bits))[2])
\* bfloat: the upper half of the float32 pattern (truncation, no rounding)
EncBFloat(b64) == Sub(Narrow(b64, 8, 23), 0, 16)
DecBFloat(bits) == Widen(bits \o Zeros(16), 8, 23)
SameFloat(a, b) == (IsNaN64(a) /\ IsNaN64(b)) \/ a = b

---------------------------------------------------------------------------
(* Exponential-Golomb codes (C10)                                          *)

EncUE(mag) == LET b == IncMag(mag) IN Zeros(Len(b) - 1) \o b
EncSE(neg, mag) ==
  IF mag = <<>> THEN <<1>>
  ELSE IF neg = 0 THEN Zeros(Len(mag)) \o mag \o <<0>>     \* code number 2v-1, +1 = 2v
  ELSE Zeros(Len(mag)) \o mag \o <<1>>                     \* code number 2|v|, +1 = 2|v|+1
EncUIE(mag) ==
  LET b == IncMag(mag) IN       \* 1 b2 ... bk  ->  0 b2 0 b3 ... 0 bk 1
  [i \in 1..(2 * Len(b) - 1) |->
     IF i = 2 * Len(b) - 1 THEN 1 ELSE IF i % 2 = 1 THEN 0 ELSE b[i \div 2 + 1]]
EncSIE(neg, mag) == IF mag = <<>> THEN <<1>> ELSE EncUIE(mag) \o <<neg>>

\* positional decoders: [ok, val (encoded int), next] reading data from 0-based pos
NoCode == [ok |-> FALSE, val |-> <<2, 0>>, next |-> 0]
DecUEat(data, pos) ==
  LET n == Len(data)
      ones == {i \in (pos + 1)..n : data[i] = 1} IN
  IF ones = {} THEN NoCode
  ELSE LET f == Min(ones)                 \* 1-based index of the first 1
           z == f - 1 - pos               \* leading zeros
       IN IF f + z > n THEN NoCode
          ELSE [ok |-> TRUE, val |-> VInt(0, DecMag(Strip(<<1>> \o Sub(data, f, f + z)))), next |-> f + z]
SEofUE(val) ==
  \* code number k -> (-1)^(k+1) * ceil(k/2)
  LET mag == IntMag(val) IN
  IF mag = <<>> THEN VInt(0, <<>>)
  ELSE IF mag[Len(mag)] = 1 THEN VInt(0, IncMag(Strip(SubSeq(mag, 1, Len(mag) - 1))))   \* odd: (k+1)/2
  ELSE VInt(1, Strip(SubSeq(mag, 1, Len(mag) - 1)))                                      \* even: -(k/2)
DecSEat(data, pos) == LET r == DecUEat(data, pos) IN IF r.ok THEN [r EXCEPT !.val = SEofUE(r.val)] ELSE r
DecUIEat(data, pos) ==
  LET n == Len(data)
      \* the code ends at the first 1 found at an even offset from pos (offsets 0, 2, 4, ...)
      ends == {i \in (pos + 1)..n : (i - 1 - pos) % 2 = 0 /\ data[i] = 1} IN
  IF ends = {} THEN NoCode
  ELSE LET f == Min(ends)
           pairs == (f - 1 - pos) \div 2
           b == <<1>> \o [j \in 1..pairs |-> data[pos + 2 * j]]
       IN [ok |-> TRUE, val |-> VInt(0, DecMag(Strip(b))), next |-> f]
DecSIEat(data, pos) ==
  LET r == DecUIEat(data, pos) IN
  IF ~r.ok THEN r
  ELSE IF IntMag(r.val) = <<>> THEN r
  ELSE IF r.next + 1 > Len(data) THEN NoCode
  ELSE [ok |-> TRUE, val |-> VInt(data[r.next + 1], IntMag(r.val)), next |-> r.next + 1]

GolombNames == {"ue", "se", "uie", "sie"}
DecGolombAt(name, data, pos) ==
  CASE name = "ue" -> DecUEat(data, pos) [] name = "se" -> DecSEat(data, pos)
    [] name = "uie" -> DecUIEat(data, pos) [] name = "sie" -> DecSIEat(data, pos)
EncGolomb(name, neg, mag) ==
  CASE name = "ue" -> EncUE(mag) [] name = "se" -> EncSE(neg, mag)
    [] name = "uie" -> EncUIE(mag) [] name = "sie" -> EncSIE(neg, mag)

---------------------------------------------------------------------------
(* Dtype table.  NativeLittle is a platform fact supplied by the harness   *)
(* (sys.byteorder); the constant is fixed to TRUE here and checked by the  *)
(* harness at start-up.                                                    *)

NativeLittle == TRUE
Canon(name) ==
  CASE name \in {"u"} -> "uint" [] name \in {"i"} -> "int" [] name = "h" -> "hex" [] name = "o" -> "oct"
    [] name = "b" -> "bin" [] name \in {"f", "floatbe"} -> "float" [] name = "bfloatbe" -> "bfloat"
    [] name = "uintne" -> (IF NativeLittle THEN "uintle" ELSE "uintbe")
    [] name = "intne" -> (IF NativeLittle THEN "intle" ELSE "intbe")
    [] name = "floatne" -> (IF NativeLittle THEN "floatle" ELSE "float")
    [] name = "bfloatne" -> (IF NativeLittle THEN "bfloatle" ELSE "bfloat")
    [] OTHER -> name

IntNames == {"uint", "int", "uintbe", "intbe", "uintle", "intle"}
SignedNames == {"int", "intbe", "intle"}
ByteNames == {"uintbe", "intbe", "uintle", "intle"}
LittleNames == {"uintle", "intle", "floatle", "bfloatle"}
FloatNames == {"float", "floatle"}
BFloatNames == {"bfloat", "bfloatle"}
TextNames == {"hex", "oct", "bin"}
TextWidth(name) == CASE name = "hex" -> 4 [] name = "oct" -> 3 [] name = "bin" -> 1
FixedNames == IntNames \cup FloatNames \cup BFloatNames \cup TextNames \cup {"bytes", "bool", "bits", "pad"}

\* bits per unit of length
Unit(name) == IF name = "bytes" THEN 8 ELSE 1
\* is n (in units, NoneI = not given) an allowed length for the dtype
LenAllowed(name, n) ==
  CASE name \in {"uint", "int"} -> n >= 1
    [] name \in ByteNames -> n >= 8 /\ n % 8 = 0
    [] name \in FloatNames -> n \in {16, 32, 64}
    [] name \in BFloatNames -> n = 16
    [] name = "bool" -> n = 1
    [] name = "hex" -> n >= 0 /\ n % 4 = 0
    [] name = "oct" -> n >= 0 /\ n % 3 = 0
    [] name \in {"bin", "bits", "bytes", "pad"} -> n >= 0
    [] OTHER -> FALSE
DefaultLen(name) == CASE name = "bool" -> 1 [] name \in BFloatNames -> 16 [] OTHER -> NoneI

\* Encode value val as dtype name with length n units (n may be NoneI where the value carries it).
\* Result [ok, bits].  ok = FALSE means the value does not fit / the length is not allowed.
Bad == [ok |-> FALSE, bits |-> <<>>]
Good(b) == [ok |-> TRUE, bits |-> b]
EncodeDtype(name0, n0, val) ==
  LET name == Canon(name0)
      n == IF IsNone(n0) THEN DefaultLen(name) ELSE n0 IN
  CASE name \in IntNames ->
         IF val[1] # 2 \/ IsNone(n) \/ ~LenAllowed(name, n) THEN Bad
         ELSE LET neg == IntNeg(val)  mag == IntMag(val)
                  fits == IF name \in SignedNames THEN FitsSint(neg, mag, n) ELSE FitsUint(neg, mag, n)
                  be == EncInt(IF name \in SignedNames THEN neg ELSE 0, mag, n) IN
              IF ~fits THEN Bad ELSE Good(IF name \in LittleNames THEN ByteRev(be) ELSE be)
    [] name \in FloatNames ->
         IF val[1] # 3 \/ IsNone(n) \/ ~LenAllowed(name, n) THEN Bad
         ELSE LET be == EncFloat(FloatBits(val), n) IN Good(IF name \in LittleNames THEN ByteRev(be) ELSE be)
    [] name \in BFloatNames ->
         IF val[1] # 3 \/ ~LenAllowed(name, n) THEN Bad
         ELSE LET be == EncBFloat(FloatBits(val)) IN Good(IF name \in LittleNames THEN ByteRev(be) ELSE be)
    [] name \in TextNames ->
         IF val[1] # (CASE name = "hex" -> 4 [] name = "oct" -> 5 [] name = "bin" -> 6) THEN Bad
         ELSE LET b == FromDigits(ValDigits(val), TextWidth(name)) IN
              IF ~IsNone(n) /\ n # Len(b) THEN Bad ELSE Good(b)
    [] name = "bytes" ->
         IF val[1] # 7 THEN Bad
         ELSE LET b == FromDigits(ValDigits(val), 8) IN
              IF ~IsNone(n) /\ n * 8 # Len(b) THEN Bad ELSE Good(b)
    [] name = "bool" ->
         IF val[1] # 1 \/ ~LenAllowed(name, n) THEN Bad ELSE Good(<<val[2]>>)
    [] name = "bits" ->
         IF val[1] # 8 THEN Bad
         ELSE LET b == SubSeq(val, 5, Len(val)) IN IF ~IsNone(n) /\ n # Len(b) THEN Bad ELSE Good(b)
    [] name = "pad" -> IF IsNone(n) \/ n < 0 THEN Bad ELSE Good(Zeros(n))
    [] name \in GolombNames ->
         IF val[1] # 2 \/ ~IsNone(n0) THEN Bad
         ELSE IF name \in {"ue", "uie"} /\ IntNeg(val) = 1 THEN Bad
         ELSE Good(EncGolomb(name, IntNeg(val), IntMag(val)))
    [] OTHER -> Bad

\* Interpret a whole bit sequence as dtype name.  Result [ok, val].
BadV == [ok |-> FALSE, val |-> <<0>>]
GoodV(v) == [ok |-> TRUE, val |-> v]
DecodeDtype(name0, bits) ==
  LET name == Canon(name0)
      n == Len(bits) IN
  CASE name \in IntNames ->
         IF ~LenAllowed(name, n) THEN BadV
         ELSE LET be == IF name \in LittleNames THEN ByteRev(bits) ELSE bits IN
              GoodV(IF name \in SignedNames THEN DecSint(be) ELSE DecUint(be))
    [] name \in FloatNames ->
         IF ~LenAllowed(name, n) THEN BadV
         ELSE GoodV(VFloat(DecFloat(IF name \in LittleNames THEN ByteRev(bits) ELSE bits)))
    [] name \in BFloatNames ->
         IF ~LenAllowed(name, n) THEN BadV
         ELSE GoodV(VFloat(DecBFloat(IF name \in LittleNames THEN ByteRev(bits) ELSE bits)))
    [] name = "hex" -> IF n % 4 # 0 THEN BadV ELSE GoodV(<<4>> \o ToDigits(bits, 4))
    [] name = "oct" -> IF n % 3 # 0 THEN BadV ELSE GoodV(<<5>> \o ToDigits(bits, 3))
    [] name = "bin" -> GoodV(<<6>> \o bits)
    [] name = "bytes" -> IF n % 8 # 0 THEN BadV ELSE GoodV(<<7>> \o ToDigits(bits, 8))
    [] name = "bool" -> IF n # 1 THEN BadV ELSE GoodV(<<1, bits[1]>>)
    [] name \in GolombNames ->
         LET r == DecGolombAt(name, bits, 0) IN
         IF r.ok /\ r.next = n THEN GoodV(r.val) ELSE BadV
    [] OTHER -> BadV

---------------------------------------------------------------------------
(* Calls: building from a value, interpreting, reading tokens from streams *)

ValueErr == {"ValueError"}
\* class of the object produced by a creation route
RouteClass(cls, route) ==
  CASE route \in {"pack", "pack_kw", "pack_val"} -> "BitStream"
    [] route \in {"dtype_build", "dtype_build_name"} -> "Bits"
    [] OTHER -> cls

\* newval: sa = <<class, dtype, route>>, ia = <<length in units or NoneI>>, va = <<value>>
DoNewVal(opts, cls, name, route, n, val) ==
  LET r == EncodeDtype(name, n, val) IN
  IF Canon(name) \in GolombNames /\ opts.lsb0 THEN Raises(AnyDoc)
  ELSE IF ~r.ok THEN Raises(ValueErr)
  ELSE OkV(VNew(RouteClass(cls, route), r.bits))

\* setprop: assignment through a property on a mutable object.  With no length in the name the
\* current length of the object is used for the numeric types.  pos afterwards: any valid value.
DoSetProp(t, o, opts, name, n0, val) ==
  LET cname == Canon(name)
      n == IF IsNone(n0) /\ (cname \in IntNames \/ cname \in FloatNames) /\ Len(o.v) > 0 THEN Len(o.v) ELSE n0
      r == EncodeDtype(name, n, val) IN
  IF ~IsMutable(o.c) THEN Raises({"*", "Internal"})
  ELSE IF cname \in GolombNames /\ opts.lsb0 THEN Raises(AnyDoc)
  ELSE IF ~r.ok THEN Raises(ValueErr)
  ELSE [OkNone(One(t, Rec(o.c, r.bits, IF IsStream(o.c) THEN 0 ELSE -1))) EXCEPT !.free = {"pos"}]

\* interp: sa = <<dtype, route>>, ia = <<length in units or NoneI>> : the whole bitstring as a value
DoInterp(o, opts, name, route, n) ==
  LET cname == Canon(name)
      nn == IF route = "prop" THEN NoneI ELSE n                 \* the plain property takes no length
      eff == IF IsNone(nn) THEN DefaultLen(cname) ELSE nn        \* effective length in units
      lenOK == IsNone(eff) \/ eff * Unit(cname) = Len(o.v)
      allowed == IsNone(nn) \/ LenAllowed(cname, nn)
      positional == route \in {"unpack", "unpack_kw", "read"}
      r == DecodeDtype(name, o.v) IN
  IF cname \in GolombNames /\ opts.lsb0 THEN Raises(AnyDoc)
  ELSE IF cname \in GolombNames /\ ~IsNone(nn) THEN Raises(ValueErr)
  \* unpack / read are positional; they are whole-value interpretations only when the lengths agree
  ELSE IF positional /\ (cname \in GolombNames \/ ~lenOK) THEN Unconstrained
  \* Dtype.parse does not compare the length of its argument with the dtype (not covered by a property)
  ELSE IF route = "dtype_parse" /\ (~lenOK \/ ~allowed) THEN Unconstrained
  \* a property name with a length that is not allowed for the type is simply not an attribute
  ELSE IF ~allowed /\ route \in {"prop_len"} THEN Raises({"*", "Internal"})
  ELSE IF ~allowed \/ ~lenOK THEN Raises(ValueErr)
  ELSE IF cname = "bits" THEN OkV(VNew(IF route = "dtype_parse" THEN "Bits" ELSE IF route = "read" THEN "ConstBitStream" ELSE o.c, o.v))
  ELSE IF ~r.ok THEN Raises(ValueErr)
  ELSE OkV(r.val)

\* readtok / peektok: one token at the current position of a stream.
\* sa = <<dtype>>, ia = <<length in units or NoneI>>.  A fixed-length dtype without a length
\* reads to the end of the stream (which must be a whole number of units).
Window(o, lsb0, a, b) == Mir(lsb0, Sub(Mir(lsb0, o.v), a, b))
DoReadTok(t, o, opts, name, n0, advance) ==
  LET cname == Canon(name)
      rem == Len(o.v) - o.p
      n == IF IsNone(n0) THEN DefaultLen(cname) ELSE n0
      moved(q) == IF advance THEN One(t, Rec(o.c, o.v, q)) ELSE NoUpd IN
  IF ~IsStream(o.c) THEN Raises({"*", "Internal"})
  ELSE IF cname \in GolombNames THEN
       (IF opts.lsb0 THEN Raises(AnyDoc)
        ELSE IF ~IsNone(n0) THEN Raises(ValueErr)
        ELSE LET r == DecGolombAt(cname, o.v, o.p) IN
             IF ~r.ok THEN Raises({"ReadError"}) ELSE Ok(<<r.val>>, <<"">>, moved(r.next)))
  ELSE IF cname \notin FixedNames THEN Unconstrained
  ELSE IF IsNone(n) THEN
       \* stretchy read: everything that remains
       (IF rem % Unit(cname) # 0 THEN Raises(AnyDoc)
        ELSE LET w == Window(o, opts.lsb0, o.p, Len(o.v))
                 r == DecodeDtype(name, w) IN
             IF cname = "pad" THEN Ok(<<VNone>>, <<"">>, moved(Len(o.v)))
             ELSE IF cname = "bits" THEN Ok(<<VNew(o.c, w)>>, <<"">>, moved(Len(o.v)))
             ELSE IF ~r.ok THEN Raises(AnyDoc)
             ELSE Ok(<<r.val>>, <<"">>, moved(Len(o.v))))
  ELSE IF n < 0 \/ ~LenAllowed(cname, n) THEN Raises(AnyDoc)
  ELSE IF n * Unit(cname) > rem THEN Raises({"ReadError"})
  ELSE LET w == Window(o, opts.lsb0, o.p, o.p + n * Unit(cname))
           r == DecodeDtype(name, w) IN
       IF cname = "pad" THEN Ok(<<VNone>>, <<"">>, moved(o.p + n))
       ELSE IF cname = "bits" THEN Ok(<<VNew(o.c, w)>>, <<"">>, moved(o.p + n))
       ELSE IF ~r.ok THEN Raises(AnyDoc)
       ELSE Ok(<<r.val>>, <<"">>, moved(o.p + n * Unit(cname)))

CodecOps == {"newval", "setprop", "interp", "readtok", "peektok"}
CodecStep(objs, opts, call) ==
  LET op == call.op
      o == objs[call.t] IN
  CASE op = "newval" -> DoNewVal(opts, call.sa[1], call.sa[2], call.sa[3], call.ia[1], call.va[1])
    [] op = "setprop" -> DoSetProp(call.t, o, opts, call.sa[1], call.ia[1], call.va[1])
    [] op = "interp" -> DoInterp(o, opts, call.sa[1], call.sa[2], call.ia[1])
    [] op = "readtok" -> DoReadTok(call.t, o, opts, call.sa[1], call.ia[1], TRUE)
    [] op = "peektok" -> DoReadTok(call.t, o, opts, call.sa[1], call.ia[1], FALSE)
=============================================================================
