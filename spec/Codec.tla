------------------------------- MODULE Codec -------------------------------
(***************************************************************************)
(* The dtype table: for every dtype name its allowed lengths, its encoder  *)
(* and decoder (from CodecBase and Mini), and the calls that build from a  *)
(* value, interpret a whole bitstring and read tokens from a stream        *)
(* (C02, C10, C11, C15).                                                   *)
(***************************************************************************)
EXTENDS Mini

---------------------------------------------------------------------------
(* Dtype table.  NativeLittle is a platform fact supplied by the harness   *)
(* (sys.byteorder); the constant is fixed to TRUE here and checked by the  *)
(* harness at start-up.                                                    *)

NativeLittle == TRUE
Canon(name) ==
  CASE name \in {"u"} -> "uint" [] name \in {"i"} -> "int" [] name = "h" -> "hex" [] name = "o" -> "oct"
    [] name = "b" -> "bin" [] name \in {"f", "floatbe"} -> "float" [] name = "bfloatbe" -> "bfloat"
    [] name = "uintne" -> (IF NativeLittle THEN "uintle" ELSE "uintbe")
    [] name = "intne" -> (IF NativeLittle THEN "intle" ELSE "intbe")
    [] name = "floatne" -> (IF NativeLittle THEN "floatle" ELSE "float")
    [] name = "bfloatne" -> (IF NativeLittle THEN "bfloatle" ELSE "bfloat")
    [] OTHER -> name

IntNames == {"uint", "int", "uintbe", "intbe", "uintle", "intle"}
SignedNames == {"int", "intbe", "intle"}
ByteNames == {"uintbe", "intbe", "uintle", "intle"}
LittleNames == {"uintle", "intle", "floatle", "bfloatle"}
FloatNames == {"float", "floatle"}
BFloatNames == {"bfloat", "bfloatle"}
TextNames == {"hex", "oct", "bin"}
TextWidth(name) == CASE name = "hex" -> 4 [] name = "oct" -> 3 [] name = "bin" -> 1
FixedNames == IntNames \cup FloatNames \cup BFloatNames \cup TextNames \cup {"bytes", "bool", "bits", "pad"} \cup AllMiniNames

\* bits per unit of length
Unit(name) == IF name = "bytes" THEN 8 ELSE 1
\* is n (in units, NoneI = not given) an allowed length for the dtype
LenAllowed(name, n) ==
  CASE name \in {"uint", "int"} -> n >= 1
    [] name \in ByteNames -> n >= 8 /\ n % 8 = 0
    [] name \in FloatNames -> n \in {16, 32, 64}
    [] name \in BFloatNames -> n = 16
    [] name = "bool" -> n = 1
    [] name = "hex" -> n >= 0 /\ n % 4 = 0
    [] name = "oct" -> n >= 0 /\ n % 3 = 0
    [] name \in {"bin", "bits", "bytes", "pad"} -> n >= 0
    [] name \in AllMiniNames -> n = MiniBits(name)
    [] OTHER -> FALSE
DefaultLen(name) == CASE name = "bool" -> 1 [] name \in BFloatNames -> 16 [] name \in AllMiniNames -> MiniBits(name)
                      [] OTHER -> NoneI

\* Encode value val as dtype name with length n units (n may be NoneI where the value carries it).
\* Result [ok, bits].  ok = FALSE means the value does not fit / the length is not allowed.
EncodeDtypeM(name0, n0, val, mx) ==
  LET name == Canon(name0)
      n == IF IsNone(n0) THEN DefaultLen(name) ELSE n0 IN
  CASE name \in IntNames ->
         IF val[1] # 2 \/ IsNone(n) \/ ~LenAllowed(name, n) THEN Bad
         ELSE LET neg == IntNeg(val)  mag == IntMag(val)
                  fits == IF name \in SignedNames THEN FitsSint(neg, mag, n) ELSE FitsUint(neg, mag, n)
                  be == EncInt(IF name \in SignedNames THEN neg ELSE 0, mag, n) IN
              IF ~fits THEN Bad ELSE Good(IF name \in LittleNames THEN ByteRev(be) ELSE be)
    [] name \in FloatNames ->
         IF val[1] # 3 \/ IsNone(n) \/ ~LenAllowed(name, n) THEN Bad
         ELSE LET be == EncFloat(FloatBits(val), n) IN Good(IF name \in LittleNames THEN ByteRev(be) ELSE be)
    [] name \in BFloatNames ->
         IF val[1] # 3 \/ ~LenAllowed(name, n) THEN Bad
         ELSE LET be == EncBFloat(FloatBits(val)) IN Good(IF name \in LittleNames THEN ByteRev(be) ELSE be)
    [] name \in TextNames ->
         IF val[1] # (CASE name = "hex" -> 4 [] name = "oct" -> 5 [] name = "bin" -> 6) THEN Bad
         ELSE LET b == FromDigits(ValDigits(val), TextWidth(name)) IN
              IF ~IsNone(n) /\ n # Len(b) THEN Bad ELSE Good(b)
    [] name = "bytes" ->
         IF val[1] # 7 THEN Bad
         ELSE LET b == FromDigits(ValDigits(val), 8) IN
              IF ~IsNone(n) /\ n * 8 # Len(b) THEN Bad ELSE Good(b)
    [] name = "bool" ->
         IF val[1] # 1 \/ ~LenAllowed(name, n) THEN Bad ELSE Good(<<val[2]>>)
    [] name = "bits" ->
         IF val[1] # 8 THEN Bad
         ELSE LET b == SubSeq(val, 5, Len(val)) IN IF ~IsNone(n) /\ n # Len(b) THEN Bad ELSE Good(b)
    [] name = "pad" -> IF IsNone(n) \/ n < 0 THEN Bad ELSE Good(Zeros(n))
    [] name \in AllMiniNames ->
         IF val[1] # 3 \/ ~LenAllowed(name, n) THEN Bad ELSE MiniEncode(name, FloatBits(val), mx)
    [] name \in GolombNames ->
         IF val[1] # 2 \/ ~IsNone(n0) THEN Bad
         ELSE IF name \in {"ue", "uie"} /\ IntNeg(val) = 1 THEN Bad
         ELSE Good(EncGolomb(name, IntNeg(val), IntMag(val)))
    [] OTHER -> Bad

EncodeDtype(name0, n0, val) == EncodeDtypeM(name0, n0, val, "saturate")

\* Interpret a whole bit sequence as dtype name.  Result [ok, val].
BadV == [ok |-> FALSE, val |-> <<0>>]
GoodV(v) == [ok |-> TRUE, val |-> v]
DecodeDtype(name0, bits) ==
  LET name == Canon(name0)
      n == Len(bits) IN
  CASE name \in IntNames ->
         IF ~LenAllowed(name, n) THEN BadV
         ELSE LET be == IF name \in LittleNames THEN ByteRev(bits) ELSE bits IN
              GoodV(IF name \in SignedNames THEN DecSint(be) ELSE DecUint(be))
    [] name \in FloatNames ->
         IF ~LenAllowed(name, n) THEN BadV
         ELSE GoodV(VFloat(DecFloat(IF name \in LittleNames THEN ByteRev(bits) ELSE bits)))
    [] name \in BFloatNames ->
         IF ~LenAllowed(name, n) THEN BadV
         ELSE GoodV(VFloat(DecBFloat(IF name \in LittleNames THEN ByteRev(bits) ELSE bits)))
    [] name = "hex" -> IF n % 4 # 0 THEN BadV ELSE GoodV(<<4>> \o ToDigits(bits, 4))
    [] name = "oct" -> IF n % 3 # 0 THEN BadV ELSE GoodV(<<5>> \o ToDigits(bits, 3))
    [] name = "bin" -> GoodV(<<6>> \o bits)
    [] name = "bytes" -> IF n % 8 # 0 THEN BadV ELSE GoodV(<<7>> \o ToDigits(bits, 8))
    [] name = "bool" -> IF n # 1 THEN BadV ELSE GoodV(<<1, bits[1]>>)
    [] name \in AllMiniNames -> IF n # MiniBits(name) THEN BadV ELSE GoodV(MiniVal(name, bits))
    [] name \in GolombNames ->
         LET r == DecGolombAt(name, bits, 0) IN
         IF r.ok /\ r.next = n THEN GoodV(r.val) ELSE BadV
    [] OTHER -> BadV

---------------------------------------------------------------------------
(* Calls: building from a value, interpreting, reading tokens from streams *)

ValueErr == {"ValueError"}
\* class of the object produced by a creation route
RouteClass(cls, route) ==
  CASE route \in {"pack", "pack_kw", "pack_val"} -> "BitStream"
    [] route \in {"dtype_build", "dtype_build_name"} -> "Bits"
    [] OTHER -> cls

\* newval: sa = <<class, dtype, route>>, ia = <<length in units or NoneI>>, va = <<value>>
DoNewVal(opts, cls, name, route, n, val) ==
  LET r == EncodeDtypeM(name, n, val, opts.mx) IN
  IF Canon(name) \in GolombNames /\ opts.lsb0 THEN Raises(AnyDoc)
  ELSE IF ~r.ok THEN Raises(ValueErr)
  ELSE OkV(VNew(RouteClass(cls, route), r.bits))

\* setprop: assignment through a property on a mutable object.  With no length in the name the
\* current length of the object is used for the numeric types.  pos afterwards: any valid value.
DoSetProp(t, o, opts, name, n0, val) ==
  LET cname == Canon(name)
      n == IF IsNone(n0) /\ (cname \in IntNames \/ cname \in FloatNames) /\ Len(o.v) > 0 THEN Len(o.v) ELSE n0
      r == EncodeDtypeM(name, n, val, opts.mx) IN
  IF ~IsMutable(o.c) THEN Raises({"*", "Internal"})
  ELSE IF cname \in GolombNames /\ opts.lsb0 THEN Raises(AnyDoc)
  ELSE IF ~r.ok THEN Raises(ValueErr)
  ELSE [OkNone(One(t, Rec(o.c, r.bits, IF IsStream(o.c) THEN 0 ELSE -1))) EXCEPT !.free = {"pos"}]

\* interp: sa = <<dtype, route>>, ia = <<length in units or NoneI>> : the whole bitstring as a value
DoInterp(o, opts, name, route, n) ==
  LET cname == Canon(name)
      nn == IF route = "prop" THEN NoneI ELSE n                 \* the plain property takes no length
      eff == IF IsNone(nn) THEN DefaultLen(cname) ELSE nn        \* effective length in units
      lenOK == IsNone(eff) \/ eff * Unit(cname) = Len(o.v)
      allowed == IsNone(nn) \/ LenAllowed(cname, nn)
      positional == route \in {"unpack", "unpack_kw", "read"}
      r == DecodeDtype(name, o.v) IN
  IF cname \in GolombNames /\ opts.lsb0 THEN Raises(AnyDoc)
  ELSE IF cname \in GolombNames /\ ~IsNone(nn) THEN Raises(ValueErr)
  \* unpack / read are positional; they are whole-value interpretations only when the lengths agree
  ELSE IF positional /\ (cname \in GolombNames \/ ~lenOK) THEN Unconstrained
  \* Dtype.parse does not compare the length of its argument with the dtype (not covered by a property)
  ELSE IF route = "dtype_parse" /\ (~lenOK \/ ~allowed) THEN Unconstrained
  \* a property name with a length that is not allowed for the type is simply not an attribute
  ELSE IF ~allowed /\ route \in {"prop_len"} THEN Raises({"*", "Internal"})
  ELSE IF ~allowed \/ ~lenOK THEN Raises(ValueErr)
  ELSE IF cname = "bits" THEN OkV(VNew(IF route = "dtype_parse" THEN "Bits" ELSE IF route = "read" THEN "ConstBitStream" ELSE o.c, o.v))
  ELSE IF ~r.ok THEN Raises(ValueErr)
  ELSE OkV(r.val)

\* readtok / peektok: one token at the current position of a stream.
\* sa = <<dtype>>, ia = <<length in units or NoneI>>.  A fixed-length dtype without a length
\* reads to the end of the stream (which must be a whole number of units).
Window(o, lsb0, a, b) == Mir(lsb0, Sub(Mir(lsb0, o.v), a, b))
DoReadTok(t, o, opts, name, n0, advance) ==
  LET cname == Canon(name)
      rem == Len(o.v) - o.p
      n == IF IsNone(n0) THEN DefaultLen(cname) ELSE n0
      moved(q) == IF advance THEN One(t, Rec(o.c, o.v, q)) ELSE NoUpd IN
  IF ~IsStream(o.c) THEN Raises({"*", "Internal"})
  ELSE IF cname \in GolombNames THEN
       (IF opts.lsb0 THEN Raises(AnyDoc)
        ELSE IF ~IsNone(n0) THEN Raises(ValueErr)
        ELSE LET r == DecGolombAt(cname, o.v, o.p) IN
             IF ~r.ok THEN Raises({"ReadError"}) ELSE Ok(<<r.val>>, <<"">>, moved(r.next)))
  ELSE IF cname \notin FixedNames THEN Unconstrained
  ELSE IF IsNone(n) THEN
       \* stretchy read: everything that remains
       (IF rem % Unit(cname) # 0 THEN Raises(AnyDoc)
        ELSE LET w == Window(o, opts.lsb0, o.p, Len(o.v))
                 r == DecodeDtype(name, w) IN
             IF cname = "pad" THEN Ok(<<VNone>>, <<"">>, moved(Len(o.v)))
             ELSE IF cname = "bits" THEN Ok(<<VNew(o.c, w)>>, <<"">>, moved(Len(o.v)))
             ELSE IF ~r.ok THEN Raises(AnyDoc)
             ELSE Ok(<<r.val>>, <<"">>, moved(Len(o.v))))
  ELSE IF n < 0 \/ ~LenAllowed(cname, n) THEN Raises(AnyDoc)
  ELSE IF n * Unit(cname) > rem THEN Raises({"ReadError"})
  ELSE LET w == Window(o, opts.lsb0, o.p, o.p + n * Unit(cname))
           r == DecodeDtype(name, w) IN
       IF cname = "pad" THEN Ok(<<VNone>>, <<"">>, moved(o.p + n))
       ELSE IF cname = "bits" THEN Ok(<<VNew(o.c, w)>>, <<"">>, moved(o.p + n))
       ELSE IF ~r.ok THEN Raises(AnyDoc)
       ELSE Ok(<<r.val>>, <<"">>, moved(o.p + n * Unit(cname)))

\* Scaled dtypes (C11): Dtype(name, n, scale = 2^k).  The scale divides a value before encoding and
\* multiplies a decoded value.  Only power-of-two scales are modelled (an exact exponent shift of the
\* double); results that leave the normal range are left unconstrained.
ScaleDouble(b, k) ==
  LET e == UVal(Sub(b, 1, 12)) IN
  IF e = 0 \/ e = 2047 THEN [ok |-> (e = 2047 \/ \A i \in 13..64 : b[i] = 0), bits |-> b]
  ELSE IF e + k < 1 \/ e + k > 2046 THEN [ok |-> FALSE, bits |-> b]
  ELSE [ok |-> TRUE, bits |-> <<b[1]>> \o UBits(e + k, 11) \o Sub(b, 12, 64)]
FloatValued(cname) == cname \in AllMiniNames \/ cname \in FloatNames \/ cname \in BFloatNames
DoNewScaled(opts, name, n, k, val) ==
  LET cname == Canon(name) IN
  IF FloatValued(cname) /\ val[1] = 3 THEN
     LET sc == ScaleDouble(FloatBits(val), -k)
         r == EncodeDtypeM(name, n, VFloat(sc.bits), opts.mx) IN
     IF ~sc.ok THEN Unconstrained
     ELSE IF ~r.ok THEN Raises(ValueErr) ELSE OkV(VNew("Bits", r.bits))
  ELSE IF cname \in {"uint", "int"} /\ val[1] = 2 /\ k >= 0 THEN
     LET mag == IntMag(val)
         exact == Len(mag) = 0 \/ (Len(mag) > k /\ \A i \in 1..k : mag[Len(mag) + 1 - i] = 0)
         q == IF Len(mag) = 0 THEN <<>> ELSE SubSeq(mag, 1, Len(mag) - k)
         r == EncodeDtypeM(name, n, VInt(IntNeg(val), q), opts.mx) IN
     IF ~exact THEN Unconstrained
     ELSE IF ~r.ok THEN Raises(ValueErr) ELSE OkV(VNew("Bits", r.bits))
  ELSE Unconstrained
DoInterpScaled(o, name, n, k) ==
  LET cname == Canon(name)
      r == DecodeDtype(name, o.v) IN
  IF ~LenAllowed(cname, n) \/ n * Unit(cname) # Len(o.v) \/ ~r.ok THEN Unconstrained
  ELSE IF FloatValued(cname) THEN
     LET sc == ScaleDouble(FloatBits(r.val), k) IN
     IF ~sc.ok THEN Unconstrained ELSE OkV(VFloat(sc.bits))
  ELSE IF cname \in {"uint", "int"} /\ k >= 0 THEN
     OkV(VInt(IntNeg(r.val), IF IntMag(r.val) = <<>> THEN <<>> ELSE IntMag(r.val) \o Zeros(k)))
  ELSE Unconstrained

\* The attributes of a Dtype object: Dtype(name, n) -> <<index of the canonical name in DtypeNameList, length,
\* bitlength, bits_per_item, is_signed, variable_length, code of the return type>>
DtypeNameList == <<"uint", "int", "uintbe", "intbe", "uintle", "intle", "float", "floatle", "bfloat", "bfloatle", "hex", "oct",
                   "bin", "bytes", "bool", "bits", "pad", "ue", "se", "uie", "sie", "p3binary", "p4binary", "e4m3mxfp",
                   "e5m2mxfp", "e3m2mxfp", "e2m3mxfp", "e2m1mxfp", "e8m0mxfp", "mxint">>
NameIndex(c) == CHOOSE i \in 1..Len(DtypeNameList) : DtypeNameList[i] = c
RetTypeCode(c) ==   \* 0 int, 1 float, 2 str, 3 bytes, 4 bool, 5 Bits
  CASE c \in IntNames \cup GolombNames -> 0
    [] c \in FloatNames \cup BFloatNames \cup AllMiniNames -> 1
    [] c \in TextNames -> 2 [] c = "bytes" -> 3 [] c = "bool" -> 4 [] OTHER -> 5
DtypeSigned(c) == c \in SignedNames \cup FloatNames \cup BFloatNames \cup {"se", "sie"} \cup (AllMiniNames \ {"e8m0mxfp"})
OptSmall(i) == IF IsNone(i) THEN VNone ELSE VSmall(i)
DoDtypeInfo(name, n) ==
  LET c == Canon(name)
      len == IF IsNone(n) THEN DefaultLen(c) ELSE n IN
  IF c = "pad" THEN Unconstrained                       \* has no return type
  ELSE IF c \in GolombNames THEN
     (IF ~IsNone(n) THEN Raises(AnyDoc)
      ELSE Ok(<<VSmall(NameIndex(c)), VNone, VNone, VSmall(1), VBool(DtypeSigned(c)), VBool(TRUE), VSmall(0)>>,
              [i \in 1..7 |-> ""], NoUpd))
  \* (a Dtype *object* of an integer type may have length 0; no value can be built with it - C15)
  ELSE IF ~IsNone(n) /\ ~(LenAllowed(c, n) \/ (c \in IntNames /\ n = 0)) THEN Raises(AnyDoc)
  ELSE Ok(<<VSmall(NameIndex(c)), OptSmall(len), OptSmall(IF IsNone(len) THEN NoneI ELSE len * Unit(c)), VSmall(Unit(c)),
            VBool(DtypeSigned(c)), VBool(FALSE), VSmall(RetTypeCode(c))>>, [i \in 1..7 |-> ""], NoUpd)

CodecOps == {"newval", "setprop", "interp", "readtok", "peektok", "newscaled", "interpscaled", "dtypeinfo"}
CodecStep(objs, opts, call) ==
  LET op == call.op
      o == objs[call.t] IN
  CASE op = "newval" -> DoNewVal(opts, call.sa[1], call.sa[2], call.sa[3], call.ia[1], call.va[1])
    [] op = "setprop" -> DoSetProp(call.t, o, opts, call.sa[1], call.ia[1], call.va[1])
    [] op = "interp" -> DoInterp(o, opts, call.sa[1], call.sa[2], call.ia[1])
    [] op = "readtok" -> DoReadTok(call.t, o, opts, call.sa[1], call.ia[1], TRUE)
    [] op = "peektok" -> DoReadTok(call.t, o, opts, call.sa[1], call.ia[1], FALSE)
    [] op = "newscaled" -> DoNewScaled(opts, call.sa[1], call.ia[1], call.ia[2], call.va[1])
    [] op = "interpscaled" -> DoInterpScaled(o, call.sa[1], call.ia[1], call.ia[2])
    [] op = "dtypeinfo" -> DoDtypeInfo(call.sa[1], call.ia[1])
=============================================================================
