------------------------------- MODULE BitSeq -------------------------------
(***************************************************************************)
(* Pure operators on finite sequences of bits (Seq({0,1})).                *)
(*                                                                         *)
(* This module is the mathematical vocabulary of the reference semantics   *)
(* of bitstring: every public operation of Bits / BitArray /               *)
(* ConstBitStream / BitStream is defined in Bitstring.tla as a function of *)
(* these operators applied to the bit sequence s.bin.                      *)
(*                                                                         *)
(* TLC facts that shape the definitions: integers are 32 bit, so nothing   *)
(* here turns a long bit sequence into a number; recursion is limited to   *)
(* a few hundred frames, so every operator over a sequence is a function   *)
(* comprehension, a set filter or a left fold - never structural           *)
(* recursion on the sequence.                                              *)
(***************************************************************************)
EXTENDS Integers, Sequences, FiniteSets, SequencesExt, FiniteSetsExt

\* "None" for optional integer arguments (start, stop, step, count, pos ...).
\* Real arguments in traces and models stay far away from it.
NoneI == -1000000000
IsNone(x) == x = NoneI
OrElse(x, d) == IF x = NoneI THEN d ELSE x

Bit == {0, 1}
\* all bit sequences of length exactly n / at most n
BitsOfLen(n) == [1..n -> Bit]
BitsUpTo(n) == UNION {BitsOfLen(k) : k \in 0..n}

Zeros(n) == [i \in 1..n |-> 0]
Ones(n)  == [i \in 1..n |-> 1]

Abs(x) == IF x < 0 THEN -x ELSE x
MinI(a, b) == IF a < b THEN a ELSE b
MaxI(a, b) == IF a > b THEN a ELSE b
\* floor division and modulus with Python semantics for a positive divisor
\* (TLC's \div and % already floor for positive divisors)
FloorDiv(a, b) == a \div b
CeilDiv(a, b) == (a + b - 1) \div b

---------------------------------------------------------------------------
(* Python slice semantics: a transcription of PySlice_AdjustIndices /      *)
(* slice.indices(len).  a, b, c may be NoneI.  c = 0 is not a slice        *)
(* (ValueError in Python) and is handled by the callers.                   *)

SliceStep(c) == IF IsNone(c) THEN 1 ELSE c

SliceStart(n, a, c) ==
  LET step == SliceStep(c) IN
  IF IsNone(a) THEN (IF step < 0 THEN n - 1 ELSE 0)
  ELSE LET a1 == IF a < 0 THEN a + n ELSE a IN
       IF a1 < 0 THEN (IF step < 0 THEN -1 ELSE 0)
       ELSE IF a1 >= n THEN (IF step < 0 THEN n - 1 ELSE n)
       ELSE a1

SliceStop(n, b, c) ==
  LET step == SliceStep(c) IN
  IF IsNone(b) THEN (IF step < 0 THEN -1 ELSE n)
  ELSE LET b1 == IF b < 0 THEN b + n ELSE b IN
       IF b1 < 0 THEN (IF step < 0 THEN -1 ELSE 0)
       ELSE IF b1 >= n THEN (IF step < 0 THEN n - 1 ELSE n)
       ELSE b1

SliceLen(n, a, b, c) ==
  LET step == SliceStep(c)
      st == SliceStart(n, a, c)
      sp == SliceStop(n, b, c) IN
  IF step < 0 THEN (IF sp < st THEN (st - sp - 1) \div (-step) + 1 ELSE 0)
  ELSE (IF st < sp THEN (sp - st - 1) \div step + 1 ELSE 0)

\* 0-based positions selected by [a:b:c], in slice order (a sequence)
SlicePositions(n, a, b, c) ==
  LET step == SliceStep(c)
      st == SliceStart(n, a, c) IN
  [i \in 1..SliceLen(n, a, b, c) |-> st + (i - 1) * step]

\* s[a:b:c]
PySlice(s, a, b, c) ==
  LET ps == SlicePositions(Len(s), a, b, c) IN
  [i \in 1..Len(ps) |-> s[ps[i] + 1]]

\* A second, independent reading of slicing used only to cross-check the
\* first one in MC_BitSeq: positions as a filtered set, ordered by step sign.
SlicePosSet(n, a, b, c) ==
  LET step == SliceStep(c)
      st == SliceStart(n, a, c)
      sp == SliceStop(n, b, c) IN
  IF step > 0 THEN {p \in 0..(n - 1) : p >= st /\ p < sp /\ (p - st) % step = 0}
  ELSE {p \in 0..(n - 1) : p <= st /\ p > sp /\ (st - p) % (-step) = 0}

\* s[i] for a Python index i (negative from the end); valid iff -n <= i < n
IndexValid(n, i) == i >= -n /\ i < n
NormIndex(n, i) == IF i < 0 THEN i + n ELSE i
GetIdx(s, i) == s[NormIndex(Len(s), i) + 1]

\* plain sub-sequence s[a:b] for 0 <= a <= b <= Len(s)  (0-based, half open)
Sub(s, a, b) == [i \in 1..(b - a) |-> s[a + i]]

Concat(s, t) == s \o t
Repeat(s, n) == [i \in 1..(n * Len(s)) |-> s[((i - 1) % Len(s)) + 1]]
Rev(s) == [i \in 1..Len(s) |-> s[Len(s) - i + 1]]

---------------------------------------------------------------------------
(* Bit-wise operators and shifts (C16)                                     *)

NotB(s) == [i \in 1..Len(s) |-> 1 - s[i]]
AndB(s, t) == [i \in 1..Len(s) |-> IF s[i] = 1 /\ t[i] = 1 THEN 1 ELSE 0]
OrB(s, t)  == [i \in 1..Len(s) |-> IF s[i] = 1 \/ t[i] = 1 THEN 1 ELSE 0]
XorB(s, t) == [i \in 1..Len(s) |-> IF s[i] # t[i] THEN 1 ELSE 0]

\* logical shifts keeping the length (n >= 0)
Shl(s, n) == [i \in 1..Len(s) |-> IF i + n <= Len(s) THEN s[i + n] ELSE 0]
Shr(s, n) == [i \in 1..Len(s) |-> IF i - n >= 1 THEN s[i - n] ELSE 0]

\* unsigned value of a short bit sequence (Len <= 30), for cross-checks only
RECURSIVE UVal(_)
UVal(s) == IF s = <<>> THEN 0 ELSE 2 * UVal(SubSeq(s, 1, Len(s) - 1)) + s[Len(s)]
Pow2(n) == 2 ^ n
\* the n-bit big-endian encoding of a small natural number
UBits(v, n) == [i \in 1..n |-> (v \div Pow2(n - i)) % 2]

---------------------------------------------------------------------------
(* Mutations at sequence level (C03).  Positions are 0-based and already   *)
(* validated by the callers.                                               *)

InsAt(s, x, p) == Sub(s, 0, p) \o x \o Sub(s, p, Len(s))
\* overwrite may run past the end, in which case the sequence grows
OvwAt(s, x, p) ==
  Sub(s, 0, p) \o x \o (IF p + Len(x) < Len(s) THEN Sub(s, p + Len(x), Len(s)) ELSE <<>>)
DeleteRange(s, a, b) == Sub(s, 0, a) \o Sub(s, b, Len(s))
ReverseRange(s, a, b) == Sub(s, 0, a) \o Rev(Sub(s, a, b)) \o Sub(s, b, Len(s))
\* rotate the window [a,b) left / right by k (0 <= k), window non-empty
RolRange(s, k, a, b) ==
  LET w == b - a  kk == k % w IN
  [i \in 1..Len(s) |-> IF i - 1 >= a /\ i - 1 < b THEN s[a + ((i - 1 - a + kk) % w) + 1] ELSE s[i]]
RorRange(s, k, a, b) ==
  LET w == b - a  kk == k % w IN
  [i \in 1..Len(s) |-> IF i - 1 >= a /\ i - 1 < b THEN s[a + ((i - 1 - a - kk + w) % w) + 1] ELSE s[i]]
SetBitAt(s, p, v) == [s EXCEPT ![p + 1] = v]
FlipBitAt(s, p) == [s EXCEPT ![p + 1] = 1 - s[p + 1]]

\* del s[a:b:c] with Python list semantics: remove the selected positions
DelSlice(s, a, b, c) ==
  LET dead == SlicePosSet(Len(s), a, b, c)
      keep == {p \in 0..(Len(s) - 1) : p \notin dead}
      ks == SetToSortSeq(keep, <) IN
  [i \in 1..Len(ks) |-> s[ks[i] + 1]]

\* s[a:b] = x with step None/1 (list semantics: replace the - possibly empty -
\* range starting at start by x; if stop < start the range is empty at start)
SetSlice1(s, a, b, x) ==
  LET n == Len(s)
      st == SliceStart(n, a, 1)
      sp0 == SliceStop(n, b, 1)
      sp == IF sp0 < st THEN st ELSE sp0 IN
  Sub(s, 0, st) \o x \o Sub(s, sp, n)

\* s[a:b:c] = x for an extended slice (sizes must match; checked by caller)
SetSliceExt(s, a, b, c, x) ==
  LET ps == SlicePositions(Len(s), a, b, c) IN
  [i \in 1..Len(s) |->
     IF \E k \in 1..Len(ps) : ps[k] = i - 1
       THEN x[CHOOSE k \in 1..Len(ps) : ps[k] = i - 1]
       ELSE s[i]]

\* set every selected position of an extended slice to the bit v
SetSliceBit(s, a, b, c, v) ==
  LET ps == SlicePosSet(Len(s), a, b, c) IN
  [i \in 1..Len(s) |-> IF (i - 1) \in ps THEN v ELSE s[i]]

---------------------------------------------------------------------------
(* Byte level helpers                                                      *)

\* reverse the order of whole bytes in a sequence whose length is 8k
ByteRev(s) ==
  LET nb == Len(s) \div 8 IN
  [i \in 1..Len(s) |-> s[(nb - 1 - ((i - 1) \div 8)) * 8 + ((i - 1) % 8) + 1]]

PadToByte(s) == s \o Zeros((8 - (Len(s) % 8)) % 8)

\* byteswap: sizes is a sequence of byte counts, pattern applied from a,
\* repeated while a whole pattern fits before b (repeat) or once (if it fits)
SumSeq(q) == FoldLeft(LAMBDA acc, x : acc + x, 0, q)
ByteSwapReps(sizes, a, b, repeat) ==
  LET tot == 8 * SumSeq(sizes) IN
  IF tot = 0 THEN 0
  ELSE IF repeat THEN (b - a) \div tot
  ELSE IF a + tot <= b THEN 1 ELSE 0
\* offset (in bits) of the k-th size within one pattern
PatOffset(sizes, k) == 8 * SumSeq(SubSeq(sizes, 1, k - 1))
ByteSwap(s, sizes, a, b, repeat) ==
  LET tot == 8 * SumSeq(sizes)
      reps == ByteSwapReps(sizes, a, b, repeat) IN
  [i \in 1..Len(s) |->
     LET p == i - 1 IN
     IF tot = 0 \/ p < a \/ p >= a + reps * tot THEN s[i]
     ELSE LET q == (p - a) % tot                      \* offset in pattern
              base == p - q                             \* start of this pattern copy
              k == CHOOSE k \in 1..Len(sizes) :
                      PatOffset(sizes, k) <= q /\ q < PatOffset(sizes, k) + 8 * sizes[k]
              fo == PatOffset(sizes, k)                 \* field offset
              fb == sizes[k]                            \* field bytes
              r == q - fo                               \* offset in field
              nr == (fb - 1 - (r \div 8)) * 8 + (r % 8)
          IN s[base + fo + nr + 1]]

---------------------------------------------------------------------------
(* Searching (C07)                                                         *)

\* pat occurs at 0-based position p of data
OccursAt(data, pat, p) ==
  /\ p >= 0 /\ p + Len(pat) <= Len(data)
  /\ \A i \in 1..Len(pat) : data[p + i] = pat[i]

\* all match positions wholly inside [a,b), optionally byte aligned
Matches(data, pat, a, b, ba) ==
  {p \in a..(b - Len(pat)) : (~ba \/ p % 8 = 0) /\ OccursAt(data, pat, p)}

\* leftmost non-overlapping matches, as an ascending sequence
NonOverlapping(ms, plen) ==
  LET sorted == SetToSortSeq(ms, <) IN
  FoldLeft(LAMBDA acc, p : IF acc = <<>> \/ p >= acc[Len(acc)] + plen THEN Append(acc, p) ELSE acc,
           <<>>, sorted)

TakeUpTo(q, n) == IF IsNone(n) \/ n >= Len(q) THEN q ELSE SubSeq(q, 1, n)

CountBit(s, v) == Cardinality({i \in 1..Len(s) : s[i] = v})

\* replace the matches at positions ms (ascending, non-overlapping) by new
ReplAt(s, ms, olen, new) ==
  LET n == Len(ms) IN
  IF n = 0 THEN s
  ELSE LET pieces == [k \in 1..(n + 1) |->
                        IF k = 1 THEN Sub(s, 0, ms[1])
                        ELSE IF k = n + 1 THEN new \o Sub(s, ms[n] + olen, Len(s))
                        ELSE new \o Sub(s, ms[k - 1] + olen, ms[k])] IN
       FoldLeft(LAMBDA acc, x : acc \o x, <<>>, pieces)

\* mirror of a window [a,b) of a sequence of length n (LSB0 <-> MSB0)
MirrorPos(n, p) == n - 1 - p
=============================================================================
