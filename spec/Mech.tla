-------------------------------- MODULE Mech --------------------------------
(***************************************************************************)
(* Mechanism model behind C04 (value isolation) and C09 (purity of         *)
(* construction): what the implementation actually keeps - storage         *)
(* objects with an `immutable` flag, object -> storage pointers, the LRU   *)
(* string-parse cache whose key is the string, user-held buffers handed    *)
(* out by tobitarray() - and the copy disciplines at each site that can    *)
(* create sharing.  Each discipline is a boolean CONSTANT so that TLC      *)
(* shows (i) with every discipline on, the observable behaviour refines    *)
(* the reference semantics (immutable values never change, a mutation      *)
(* changes exactly its target, construction from a string is a pure        *)
(* function of the string and the options in force), and (ii) switching    *)
(* any single discipline off admits a violating history - the histories    *)
(* that the conformance programs of C04 / C09 replay on the real code.     *)
(*                                                                         *)
(* Sites:  SetBitsCopies       Bits._setbits (bits= keyword, .bits =,      *)
(*                              Dtype('bits').build)                       *)
(*         FromstringCopies    fromstring() on the mutable classes         *)
(*         ToBitarrayCopies    Bits.tobitarray                             *)
(*         CacheKeyHasOptions  key of the str_to_bitstore cache            *)
(*         CtorCopiesImmutable BitArray/BitStream.__init__ copy-if-flagged *)
(***************************************************************************)
EXTENDS Integers, Sequences, FiniteSets, TLC
CONSTANTS Obj, Store, Key, CacheCap,
          SetBitsCopies, FromstringCopies, ToBitarrayCopies, CacheKeyHasOptions, CtorCopiesImmutable

Cls == {"Bits", "BitArray"}          \* one immutable and one mutable class suffice here
Mutable(c) == c = "BitArray"
Val == {<<>>, <<0>>, <<1>>}
NoStore == CHOOSE s : s \notin Store

\* what a string key denotes under option value b: k1 is option dependent (like 'ue=..' or an
\* out-of-range 'e4m3mxfp=..'), every other key is not
Denote(k, b) == IF k = CHOOSE x \in Key : TRUE THEN (IF b THEN <<0>> ELSE <<1>>) ELSE <<0>>
CacheKey(k, b) == IF CacheKeyHasOptions THEN <<k, b>> ELSE <<k, FALSE>>

VARIABLES ocls,    \* live object -> class
          ostore,  \* live object -> storage
          sbits,   \* allocated storage -> bits
          simm,    \* allocated storage -> immutable flag
          cache,   \* sequence of <<cache key, storage>>, most recently used last
          held,    \* storages the user holds as a bitarray (from tobitarray)
          opt,     \* the option value in force
          last     \* what the last step was, for the action properties
vars == <<ocls, ostore, sbits, simm, cache, held, opt, last>>

Live == DOMAIN ocls
Alloc == DOMAIN sbits
ValOf(o) == sbits[ostore[o]]
Fresh == Store \ Alloc

Init == /\ ocls = <<>> /\ ostore = <<>> /\ sbits = <<>> /\ simm = <<>>
        /\ cache = <<>> /\ held = {} /\ opt = FALSE /\ last = [a |-> "init"]

Put(f, k, v) == [x \in (DOMAIN f) \cup {k} |-> IF x = k THEN v ELSE f[x]]

\* The constructor of class c adopting storage s0 (which may be shared): returns the storage the new
\* object ends up with, plus the updated storage maps.
Adopt(c, s0, sb, si) ==
  IF Mutable(c) THEN
     IF si[s0] /\ CtorCopiesImmutable
       THEN LET f == CHOOSE x \in Store \ DOMAIN sb : TRUE IN
            [st |-> f, sb |-> Put(sb, f, sb[s0]), si |-> Put(si, f, FALSE)]
       ELSE [st |-> s0, sb |-> sb, si |-> si]
  ELSE [st |-> s0, sb |-> sb, si |-> Put(si, s0, TRUE)]     \* Bits.__init__ flags whatever it holds

CacheHit(ck) == \E i \in 1..Len(cache) : cache[i][1] = ck
CacheIdx(ck) == CHOOSE i \in 1..Len(cache) : cache[i][1] = ck
Touch(i) == [j \in 1..Len(cache) |-> IF j < i THEN cache[j] ELSE IF j < Len(cache) THEN cache[j + 1] ELSE cache[i]]
Insert(entry) == LET c1 == Append(cache, entry) IN
                 IF Len(c1) > CacheCap THEN SubSeq(c1, 2, Len(c1)) ELSE c1

\* o = Cls(string k)   or   o = Cls.fromstring(k)
NewStr(o, c, k, viaFromstring) ==
  /\ o \notin Live
  /\ LET ck == CacheKey(k, opt) IN
     IF CacheHit(ck) THEN
        LET s0 == cache[CacheIdx(ck)][2]
            share == viaFromstring /\ ~FromstringCopies      \* fromstring skipped the constructor
            r == IF share THEN [st |-> s0, sb |-> sbits, si |-> simm] ELSE Adopt(c, s0, sbits, simm) IN
        /\ (Mutable(c) /\ ~share /\ CtorCopiesImmutable => Fresh # {})
        /\ cache' = Touch(CacheIdx(ck))
        /\ sbits' = r.sb /\ simm' = r.si
        /\ ocls' = Put(ocls, o, c) /\ ostore' = Put(ostore, o, r.st)
     ELSE
        /\ Cardinality(Fresh) >= 2
        /\ LET s0 == CHOOSE x \in Fresh : TRUE
               sb1 == Put(sbits, s0, Denote(k, opt))
               si1 == Put(simm, s0, TRUE)
               share == viaFromstring /\ ~FromstringCopies
               r == IF share THEN [st |-> s0, sb |-> sb1, si |-> si1] ELSE Adopt(c, s0, sb1, si1) IN
           /\ cache' = Insert(<<ck, s0>>)
           /\ sbits' = r.sb /\ simm' = r.si
           /\ ocls' = Put(ocls, o, c) /\ ostore' = Put(ostore, o, r.st)
  /\ UNCHANGED <<held, opt>>
  /\ last' = [a |-> "newstr", o |-> o, k |-> k]

\* o = Cls(src)  (auto initialiser from another bitstring): BitStore.copy() shares only flagged storage
NewFromObj(o, c, src) ==
  /\ o \notin Live /\ src \in Live /\ Fresh # {}
  /\ LET s1 == ostore[src]
         f == CHOOSE x \in Fresh : TRUE
         pre == IF simm[s1] THEN [st |-> s1, sb |-> sbits, si |-> simm]
                ELSE [st |-> f, sb |-> Put(sbits, f, sbits[s1]), si |-> Put(simm, f, FALSE)]
         r == IF Mutable(c) /\ pre.si[pre.st] /\ Cardinality(Store \ DOMAIN pre.sb) = 0 THEN pre
              ELSE Adopt(c, pre.st, pre.sb, pre.si) IN
     /\ sbits' = r.sb /\ simm' = r.si
     /\ ocls' = Put(ocls, o, c) /\ ostore' = Put(ostore, o, r.st)
  /\ UNCHANGED <<cache, held, opt>>
  /\ last' = [a |-> "newobj", o |-> o]

\* o = Cls(bits=src)
NewBitsKw(o, c, src) ==
  /\ o \notin Live /\ src \in Live /\ Cardinality(Fresh) >= 2
  /\ LET s1 == ostore[src]
         f == CHOOSE x \in Fresh : TRUE
         pre == IF SetBitsCopies
                  THEN [st |-> f, sb |-> Put(sbits, f, sbits[s1]), si |-> Put(simm, f, FALSE)]
                  ELSE [st |-> s1, sb |-> sbits, si |-> simm]
         r == Adopt(c, pre.st, pre.sb, pre.si) IN
     /\ sbits' = r.sb /\ simm' = r.si
     /\ ocls' = Put(ocls, o, c) /\ ostore' = Put(ostore, o, r.st)
  /\ UNCHANGED <<cache, held, opt>>
  /\ last' = [a |-> "bitskw", o |-> o]

\* an in-place mutation of a mutable object: the storage is written whatever its flag says
Mutate(o, v) ==
  /\ o \in Live /\ Mutable(ocls[o]) /\ v # ValOf(o)
  /\ sbits' = [sbits EXCEPT ![ostore[o]] = v]
  /\ UNCHANGED <<ocls, ostore, simm, cache, held, opt>>
  /\ last' = [a |-> "mutate", o |-> o]

ToBitarray(o) ==
  /\ o \in Live
  /\ IF ToBitarrayCopies
       THEN /\ Fresh # {}
            /\ LET f == CHOOSE x \in Fresh : TRUE IN
               /\ sbits' = Put(sbits, f, ValOf(o)) /\ simm' = Put(simm, f, FALSE) /\ held' = held \cup {f}
       ELSE /\ held' = held \cup {ostore[o]} /\ UNCHANGED <<sbits, simm>>
  /\ UNCHANGED <<ocls, ostore, cache, opt>>
  /\ last' = [a |-> "tobitarray", o |-> o]

\* the user changes a bitarray obtained from tobitarray()
HeldMutate(s, v) ==
  /\ s \in held /\ v # sbits[s]
  /\ sbits' = [sbits EXCEPT ![s] = v]
  /\ UNCHANGED <<ocls, ostore, simm, cache, held, opt>>
  /\ last' = [a |-> "heldmutate"]

SetOpt(b) == /\ opt' = b /\ b # opt /\ UNCHANGED <<ocls, ostore, sbits, simm, cache, held>>
             /\ last' = [a |-> "setopt"]

Next ==
  \/ \E o \in Obj, c \in Cls, k \in Key, fs \in BOOLEAN : NewStr(o, c, k, fs)
  \/ \E o \in Obj, c \in Cls, src \in Obj : NewFromObj(o, c, src)
  \/ \E o \in Obj, c \in Cls, src \in Obj : NewBitsKw(o, c, src)
  \/ \E o \in Obj, v \in Val : Mutate(o, v)
  \/ \E o \in Obj : ToBitarray(o)
  \/ \E s \in Store, v \in Val : HeldMutate(s, v)
  \/ \E b \in BOOLEAN : SetOpt(b)

Spec == Init /\ [][Next]_vars

---------------------------------------------------------------------------
(* The reference semantics, as action properties over the mechanism.       *)

\* C04: the value of an immutable object never changes
ImmutableConst ==
  [][\A o \in Live : (o \in DOMAIN ocls' /\ ~Mutable(ocls[o])) => sbits'[ostore'[o]] = ValOf(o)]_vars
\* C04: a step changes the value of at most the object it targets; buffers and options change no object
OnlyTargetChanges ==
  [][\A o \in Live : (o \in DOMAIN ocls' /\ sbits'[ostore'[o]] # ValOf(o)) =>
        (last'.a = "mutate" /\ last'.o = o)]_vars
\* C09: constructing from a string gives what the string denotes under the options in force
PureConstruction ==
  [][last'.a = "newstr" => sbits'[ostore'[last'.o]] = Denote(last'.k, opt)]_vars
\* sanity of the model itself
TypeOK == /\ DOMAIN ostore = DOMAIN ocls /\ DOMAIN simm = DOMAIN sbits
          /\ \A o \in Live : ostore[o] \in Alloc
          /\ Len(cache) <= CacheCap
=============================================================================
