----------------------------- MODULE PosMachine -----------------------------
(***************************************************************************)
(* The length / position abstraction of one stream (C06): all that is kept *)
(* of the Ref machine is len = number of bits and pos.  Its actions are    *)
(* the documented movements of the position.                               *)
(*                                                                         *)
(* Two checks use it: (i) Apalache proves PosValid *inductively*, i.e. for *)
(* streams of any length (`apalache-mc check --init=IndInit --inv=PosValid *)
(* --length=1`; the bounded TLC runs cannot say that); (ii) TLC checks, in *)
(* MC_Ref*.cfg, that every step of the Ref machine on its BitStream is one *)
(* of these actions (property RefinesPosMachine of Ref.tla), so the        *)
(* abstraction is the abstraction of the specification that is bound to    *)
(* the code.                                                               *)
(***************************************************************************)
EXTENDS Integers
VARIABLES
  \* @type: Int;
  len,
  \* @type: Int;
  pos

PosValid == 0 <= pos /\ pos <= len
\* negative control: not an invariant (append puts the position at the end) - Apalache must refute it
TooStrong == pos = 0 \/ pos < len
TypeOK == len \in Int /\ pos \in Int /\ len >= 0
Init == len \in Nat /\ pos \in Nat /\ pos <= len
IndInit == TypeOK /\ PosValid

\* (the actions are written without quantifiers, as constraints on the primed values, so that TLC can evaluate them
\* on a pair of states of the Ref machine; `New' introduces the primed values for Apalache)
New == len' \in Int /\ pos' \in Int
\* a call that changes nothing of the stream (non-mutating results, refused calls, calls on other objects)
Stay == len' = len /\ pos' = pos
\* setpos / bytepos / bytealign / read / readlist / readto / find: the position moves inside the data
Move == New /\ len' = len /\ 0 <= pos' /\ pos' <= len
\* append, +=: the position goes to the (new) end
Append == New /\ len' >= len /\ pos' = len'
\* prepend: the position goes to 0
Prepend == New /\ len' >= len /\ pos' = 0
\* insert of k > 0 bits at p in 0..len: just after what was written (k = len' - len, p = pos' - k)
Insert == New /\ len' > len /\ 0 <= pos' - (len' - len) /\ pos' - (len' - len) <= len
\* overwrite with k > 0 bits at p in 0..len: just after what was written; data past the end extends the stream
Overwrite == New /\ pos' >= 1 /\ len' = (IF pos' > len THEN pos' ELSE len)
\* a mutation that keeps the length keeps the position (set, invert, reverse, rol, ror, &=, <<=, item assignment, ...)
SameLength == len' = len /\ pos' = pos
\* deletion, slice assignment, replace that change the length; clear: the position goes to 0
Resize == New /\ len' >= 0 /\ len' # len /\ pos' = 0
\* *= n (n >= 0): the position is kept if it still fits, else 0
Repeat == /\ New
          /\ (IF len = 0 THEN len' = 0 ELSE (len' >= 0 /\ len' % len = 0))
          /\ pos' = (IF pos <= len' THEN pos ELSE 0)

Next == Stay \/ Move \/ Append \/ Prepend \/ Insert \/ Overwrite \/ SameLength \/ Resize \/ Repeat
\* @type: <<Int, Int>>;
pvars == <<len, pos>>
Spec == Init /\ [][Next]_pvars
=============================================================================
