----------------------------- MODULE MC_Bitwise -----------------------------
(***************************************************************************)
(* Role A for C16: the per-bit definitions of ~ & | ^ << >> in BitSeq      *)
(* satisfy the algebraic consequences the property lists, and agree with   *)
(* the same operators on the unsigned integer value masked to len bits     *)
(* (CommunityModules Bitwise), for every pair of contents up to L bits.    *)
(***************************************************************************)
EXTENDS BitSeq, Bitwise, TLC
CONSTANT L
VARIABLES s, t, k
vars == <<s, t, k>>
Init == s \in BitsUpTo(L) /\ t \in BitsOfLen(Len(s)) /\ k \in 0..(L + 2)
Next == UNCHANGED vars
Spec == Init /\ [][Next]_vars
n == Len(s)
Mask == Pow2(n) - 1
Involution == NotB(NotB(s)) = s
XorSelf == XorB(s, s) = Zeros(n)
Idempotent == AndB(s, s) = s /\ OrB(s, s) = s
DeMorgan == NotB(AndB(s, t)) = OrB(NotB(s), NotB(t)) /\ NotB(OrB(s, t)) = AndB(NotB(s), NotB(t))
Commutative == AndB(s, t) = AndB(t, s) /\ OrB(s, t) = OrB(t, s) /\ XorB(s, t) = XorB(t, s)
XorViaAndOr == XorB(s, t) = AndB(OrB(s, t), NotB(AndB(s, t)))
Arithmetic ==
  /\ UVal(AndB(s, t)) = (UVal(s) & UVal(t))
  /\ UVal(OrB(s, t)) = (UVal(s) | UVal(t))
  /\ UVal(XorB(s, t)) = (UVal(s) ^^ UVal(t))
  /\ UVal(NotB(s)) = Mask - UVal(s)
ShiftArithmetic ==
  /\ UVal(Shl(s, k)) = (UVal(s) * Pow2(k)) % Pow2(n)
  /\ UVal(Shr(s, k)) = UVal(s) \div Pow2(k)
ShiftLength == Len(Shl(s, k)) = n /\ Len(Shr(s, k)) = n
ShiftOut == k >= n => (Shl(s, k) = Zeros(n) /\ Shr(s, k) = Zeros(n))
UBitsRoundTrip == UBits(UVal(s), n) = s
=============================================================================
