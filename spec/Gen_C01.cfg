SPECIFICATION GenSpec
CONSTANT L = 3
CONSTANT LP = 3
CHECK_DEADLOCK FALSE
