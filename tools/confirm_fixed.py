#!/usr/bin/env python3
"""For every status=fixed entry of known_findings.json: reverse-apply its fix commit on a scratch copy of /repo
(outside /repo and /verif), run the entry's witness program there and require that Trace.tla rejects it; then
run it on the current tree and require that it is accepted. Writes /verif/fixed_confirmation.json."""
import json
import os
import shutil
import subprocess
import sys
import tempfile

VERIF = os.path.dirname(os.path.dirname(os.path.abspath(__file__)))
sys.path.insert(0, VERIF)
RUN = r'''
import sys, json, os
sys.path.insert(0, %r)
from harness.core import Check
chk = Check('CF_' + sys.argv[1].replace('-', '_'), 'quick', 0)
prog = json.loads(sys.argv[2])
chk.run_and_validate([prog], 'w')
print('RESULT', json.dumps({'events': chk.nevents, 'rejects': [[s, c] for t, s, c in chk.rejects]}))
chk.cleanup()
''' % VERIF


def run(root, fid, prog):
    env = dict(os.environ, VERIF_REPO_ROOT=root)
    p = subprocess.run(['/venv/bin/python', '-c', RUN, fid, json.dumps(prog)], env=env, capture_output=True, text=True)
    for line in p.stdout.splitlines():
        if line.startswith('RESULT '):
            return json.loads(line[7:])
    return {'error': (p.stdout + p.stderr)[-600:]}


def main():
    only = set(sys.argv[1:])
    with open(os.path.join(VERIF, 'known_findings.json')) as f:
        ents = [e for e in json.load(f)['findings'] if e['status'] == 'fixed' and (not only or e['id'] in only)]
    out = {}
    for e in ents:
        d = tempfile.mkdtemp(prefix='cf_', dir='/dev/shm')
        try:
            subprocess.run(['rsync', '-a', '--exclude', '.git', '--exclude', '__pycache__', '/repo/', d + '/'], check=True)
            diff = subprocess.run(['git', '-C', '/repo', 'show', e['commit'], '--', 'bitstring'], capture_output=True, text=True).stdout
            ap = subprocess.run(['patch', '-R', '-p1', '-s', '-f', '-d', d], input=diff, capture_output=True, text=True)
            mode = 'fix commit reverse-applied to the current tree'
            if ap.returncode != 0:
                # later fixes touch the same lines: fall back to the tree of the parent commit
                shutil.rmtree(d, ignore_errors=True)
                os.makedirs(d)
                ar = subprocess.run(f"git -C /repo archive {e['commit']}^ | tar -x -C {d}", shell=True)
                mode = 'tree of the parent commit of the fix (reverse patch conflicts with later fixes)'
            before = run(d, e['id'], e['witness'])
            after = run('/repo', e['id'], e['witness'])
            ok = bool(before.get('rejects')) and after.get('rejects') == []
            out[e['id']] = {'mode': mode, 'without_fix': before, 'with_fix': after, 'confirmed': ok}
            print(e['id'], 'confirmed' if ok else 'NOT-CONFIRMED', before.get('rejects', before)[:3] if isinstance(before.get('rejects'), list) else before)
        finally:
            shutil.rmtree(d, ignore_errors=True)
    path = os.path.join(VERIF, 'fixed_confirmation.json')
    old = {}
    if only and os.path.exists(path):
        old = json.load(open(path))
    old.update(out)
    json.dump(old, open(path, 'w'), indent=1)


if __name__ == '__main__':
    main()
