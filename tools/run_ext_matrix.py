#!/usr/bin/env python3
"""For every seeded change: run the repository's own tests under the external tracer on a scratch copy with the patch
applied and let Trace.tla judge the recorded events (harness/exttrace.py). Records in seeded/matrix.json under the
pseudo-check 'repo-tests-traced/quick' whether the existing tests - which all still pass - reveal the change."""
import json
import os
import shutil
import subprocess
import sys
import tempfile
import time

VERIF = os.path.dirname(os.path.dirname(os.path.abspath(__file__)))
sys.path.insert(0, VERIF)
SEEDED = os.path.join(VERIF, 'seeded')
CODE = r'''
import sys, json
sys.path.insert(0, %r)
from harness.core import Check
from harness import exttrace
chk = Check('EXT', 'quick', 0)
v = exttrace.run(chk, thorough=False)
print('RESULT', json.dumps({'events': chk.nevents, 'violations': [[x['nodeid'], x['clause']] for x in v],
                            'rejected': chk.extra_cov['repository_tests_traced']['rejected_events']}))
chk.cleanup()
''' % VERIF


def main():
    names = sys.argv[1:] or sorted(x for x in os.listdir(SEEDED) if os.path.isdir(os.path.join(SEEDED, x)))
    path = os.path.join(SEEDED, 'matrix.json')
    for name in names:
        d = tempfile.mkdtemp(prefix='mx_', dir='/dev/shm')
        try:
            subprocess.run(['rsync', '-a', '--exclude', '.git', '--exclude', '__pycache__', '/repo/', d + '/'], check=True)
            patch = os.path.join(SEEDED, name, 'patch.diff')
            ap = subprocess.run(f'cd {d} && (git apply --unsafe-paths -p1 {patch} 2>/dev/null || patch -p1 -s -f < {patch})', shell=True,
                                capture_output=True, text=True)
            if ap.returncode != 0:
                print(name, 'PATCH DID NOT APPLY')
                continue
            t0 = time.time()
            p = subprocess.run(['/venv/bin/python', '-c', CODE], env=dict(os.environ, VERIF_REPO_ROOT=d), capture_output=True, text=True)
            res = None
            for line in p.stdout.splitlines():
                if line.startswith('RESULT '):
                    res = json.loads(line[7:])
            if res is None:
                print(name, 'FAILED', (p.stdout + p.stderr)[-400:])
                continue
            rec = {'exit': 1 if res['violations'] else 0, 'violations': len(res['violations']),
                   'line': f"{res['events']} events of the repository tests, {res['rejected']} rejected: " + '; '.join(f'{n} ({c})' for n, c in res['violations'][:3]),
                   'wall': round(time.time() - t0, 1)}
            m = json.load(open(path)) if os.path.exists(path) else {}
            m.setdefault(name, {})['repo-tests-traced/quick'] = rec
            json.dump(m, open(path, 'w'), indent=1, sort_keys=True)
            print(name, 'DETECTED' if res['violations'] else 'missed', rec['line'][:200], flush=True)
        finally:
            shutil.rmtree(d, ignore_errors=True)


if __name__ == '__main__':
    main()
