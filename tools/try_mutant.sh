#!/bin/bash
# usage: tools/try_mutant.sh <patch.diff> <property id> [tier]
# Applies the patch to a scratch copy of /repo's working tree (outside /repo and /verif), runs the
# property's check against the copy and removes it. Prints the check's last lines and exit code.
set -u
patch=$1; pid=$2; tier=${3:-quick}
d=$(mktemp -d /dev/shm/mut_XXXXXX)
rsync -a --exclude .git --exclude '__pycache__' /repo/ "$d"/
if ! (cd "$d" && git apply --unsafe-paths -p1 "$patch" 2>/dev/null || patch -p1 -s -d "$d" < "$patch"); then
  echo "PATCH DID NOT APPLY"; rm -rf "$d"; exit 3
fi
VERIF_EVIDENCE_DIR=/dev/shm/mx_evidence VERIF_REPO_ROOT="$d" /verif/check "$pid" --tier "$tier" 2>&1 | tail -${LINES_OUT:-6}
rc=${PIPESTATUS[0]}
rm -rf "$d"
echo "exit=$rc"
exit $rc
