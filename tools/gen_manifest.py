#!/usr/bin/env python3
"""Regenerates /verif/MANIFEST.json from the table below and validates it against the schema."""
import json
import os
import subprocess

VERIF = os.path.dirname(os.path.dirname(os.path.abspath(__file__)))

TRUSTED = ("Trusted base: TLC 1.8 evaluating the TLA+ modules in /verif/spec; the Python runner harness/world.py "
           "(performs the call named in each event and projects s.bin / pos / len of every live object); the JSON "
           "value encoding harness/enc.py. The verdict on every event is TLC's (Trace.tla); Python only generates "
           "inputs, records and classifies rejections against known_findings.json.")

CHECKS = {
    'C01': dict(
        text=("Model-based: (A) TLC checks the slicing/sequence laws of the specification exhaustively for every content "
              "up to 4 (thorough 6) bits and every start/stop/step triple in and beyond range; (B) TLC enumerates every "
              "getslice/getitem/add/radd/mul/len/bool/iter call over contents up to 3 (thorough 5) bits, each replayed on "
              "all four classes by rotating construction routes; (C) seeded random programs at byte/word/kilobit/8192-bit "
              "lengths. Every recorded event (return value, class, pos, exception category, frame of all live objects) is "
              "judged by TLC against Step in spec/Bitstring.tla. Exhaustive within the bounds, sampled beyond."),
        design='DESIGN.md section 10 (C01)', technique='TLA+ spec + TLC exhaustive enumeration replayed into code + TLC trace validation'),
}

def core(text):
    return dict(text=text, design='DESIGN.md section 10',
                technique='TLA+ spec + TLC model checking of Step theorems + TLC-enumerated edges replayed into code + TLC trace validation')


CHECKS.update({
    'C03': core("Model-based: (A) TLC model-checks the frame/raise/position theorems of the Step function on every mutator call "
                "over every content up to 2-3 bits; (B) TLC enumerates every (content, mutator call) edge with arguments in, at "
                "and beyond the ends, each replayed on BitArray and BitStream; (C) seeded random sequences of mutations on one "
                "object at byte/word/kilobit lengths; behaviours of the Ref machine (Ref.tla, three live objects, cross-object "
                "operands, lsb0 toggles) printed by tlc -simulate are replayed too. TLC judges return value, new content, pos and "
                "every other live object after each call. Exhaustive within the bounds, sampled beyond."),
    'C06': core("Model-based: (A) TLC model-checks 0<=pos<=len, read/peek consumption and the documented position movements on "
                "every stream/mutator call from every (content up to 3 bits, pos); (B) the same edges replayed on ConstBitStream "
                "and BitStream from every position; Ref.tla explored as a state graph (0<=pos<=len in every reachable state of three "
                "live objects, at most the target changes per step) and its simulated behaviours replayed; (C) seeded random "
                "sequences of stream operations incl. token reads and readlist / peeklist of random token lists from random "
                "positions. The (length, position) abstraction PosMachine.tla is proved inductive by Apalache (any length) and "
                "TLC checks that the Ref machine refines it."),
    'C07': core("Model-based: the brute-force definition (set comprehension Matches in BitSeq.tla) is evaluated by TLC on every "
                "recorded search call: exhaustively for every content up to 2-3 bits x pattern x window x count, and on seeded "
                "random/periodic/constant data up to 300 bits (thorough: 20000 bits) with planted aligned/unaligned occurrences "
                "under every bytealigned / options.bytealigned combination."),
    'C12': core("Model-based: LSB0 semantics are defined in the spec as Rev o msb0 o Rev; TLC model-checks the mirror law on the "
                "Step function for every call family, every TLC-enumerated edge (slices, mutators, searches, stream reads) is "
                "replayed with options.lsb0 set, plus seeded random programs under lsb0 and programs toggling the option "
                "between calls on the same objects."),
    'C13': core("Model-based: every pair of contents up to 3-4 bits x ==, !=, hash equality, set/dict membership, non-promotable "
                "right operands, hashability and copies on all four classes (TLC-enumerated), plus seeded random groups of equal "
                "objects built by different classes/routes/positions at lengths around the 2000-bit hash sampling threshold; "
                "TLC judges each outcome against content equality."),
    'C16': core("Model-based: TLC model-checks involution, De Morgan, idempotence, s^s=0 and agreement with integer arithmetic for "
                "all pairs up to 5 (thorough 8) bits and all shift counts; every operator call (plain, reflected, in-place, self "
                "operand, all shift counts -2..len+2) on every content up to 3 bits is replayed on all four classes in both bit "
                "numbering modes; seeded random programs at word-boundary lengths. TLC judges result, class, pos, exception "
                "category and that operands are unchanged."),
})

def codec(text):
    return dict(text=text, design='DESIGN.md section 10',
                technique='TLA+ codec spec (bit-sequence arithmetic) + TLC model checking of round-trip theorems + TLC-enumerated values through every route + TLC trace validation')


CHECKS.update({
    'C02': codec("Model-based: Codec.tla defines every fixed dtype's canonical encoding on bit sequences (two's complement, byte "
                 "reversal, IEEE narrowing/widening with RNE, digit maps). TLC model-checks Enc(Dec(p)) = p for every pattern up "
                 "to 8-10 bits and all 65536 half patterns, then every enumerated (dtype, length, value) goes through every "
                 "creation and reading route of the real library and TLC compares bits and values; seeded random values up to "
                 "333 bits and arbitrary doubles (midpoints +-1ulp, subnormals, overflow) are judged the same way."),
    'C10': codec("Model-based: exp-Golomb encoders/decoders on (sign, magnitude bits) of any size. TLC model-checks totality, "
                 "canonicity (= prefix freeness) and refusal of every truncated codeword over all bit strings up to 12-14 bits; "
                 "every integer in a window and every bit string up to 9 bits is run through the library's creation, "
                 "whole-string and positional reading routes; seeded random integers to 2^200 and mixed codeword streams with "
                 "truncations are validated event by event (value, pos advance, ReadError / InterpretError, pos unchanged)."),
    'C15': codec("Model-based: range/size classification Fits/LenAllowed in Codec.tla, model-checked at the limits for every "
                 "width; every (dtype, length incl. 0/negative/not-allowed, value from min-2 to max+2) through every creation "
                 "route incl. property assignment onto an object holding other content; TLC requires CreationError and no change "
                 "for every non-fitting combination and the exact length otherwise; the Array element route incl. scaled next to "
                 "unscaled dtypes, and offset/length windows over byte sources ending within a byte of the end (also under C17)."),
})

CHECKS.update({
    'C05': dict(text=("Model-based: Format.tla gives pack / unpack / readlist / token-string construction a meaning on the flat "
                      "token list (value consumption, stretchy-token rule, CreationError cases). One TLC run both model-checks "
                      "the C05 theorems (length = sum, unpack inverts pack, every split composes, wrong counts / sizes refused) on "
                      "every token list up to K tokens over a 14-kind menu and writes the rows, which are replayed through the "
                      "library in several spellings (list form, multipliers, brackets, keyword lengths, whitespace); seeded "
                      "random formats over 24 token kinds are judged event by event."),
                design='DESIGN.md section 10 (C05)', technique='TLA+ format spec + TLC theorems and enumeration in one run + replay + TLC trace validation'),
    'C18': dict(text=("Model-based: StructToks in Format.tla lays out struct codes per prefix (standard sizes; native sizes and "
                      "alignment for '@' from platform constants checked at start-up); TLC model-checks layout/alignment/"
                      "byte-reversal/round-trip theorems on every prefix x code sequence x limit value and the rows are replayed "
                      "through pack/unpack/.bytes; le/be/ne relations and byteswap on random whole-byte contents are validated "
                      "through Codec/BitSeq semantics. The '@' deviation from struct.pack is a listed known finding."),
                design='DESIGN.md section 10 (C18)', technique='TLA+ struct layout spec + TLC theorems and enumeration + replay + TLC trace validation'),
})

CHECKS.update({
    'C17': dict(text=("Model-based: Serial.tla defines tobytes/tofile (zero padding to a byte), the chunked writer and byte-source "
                      "windows; TLC model-checks padding, window recovery and 'chunked = whole iff chunk is whole bytes' for every "
                      "content up to 8-13 bits; all four classes x every length 0..20 and seeded random windows over six source "
                      "kinds (incl. real files and handles) and the real tofile loop across a hooked chunk boundary are validated "
                      "event by event; thorough writes one real > 100 MiB object."),
                design='DESIGN.md section 10 (C17)', technique='TLA+ serialisation spec + TLC model checking + TLC trace validation of recorded file/bytes operations'),
    'C08': dict(text=("Model-based: the reference state machine has no construction-route component, so conformance of the same "
                      "calls on twins built by 17 routes (text, bytes windows, bitarray, slices, uint, fromstring, whole files, "
                      "length-limited and offset file windows, file handles) to the one Step function decides route "
                      "independence; the string-cache route is exercised with prior history (the literal used as operand of in-place "
                      "additions onto objects that are then changed), mutable twins are also serialised after a mutation; seeded "
                      "random programs under msb0 and lsb0, each event judged by TLC."),
                design='DESIGN.md section 10 (C08)', technique='TLA+ route-free reference machine + TLC trace validation of twin objects built by every route'),
})

CHECKS.update({
    'C04': dict(text=("Model-based: Mech.tla models storages with an immutable flag, object->storage pointers, the string cache and "
                      "handed-out bitarrays with one copy-discipline constant per code site; TLC exhaustively explores all "
                      "histories (1.4-8 million states) and proves ImmutableConst / OnlyTargetChanges with every discipline on, and "
                      "must find a counterexample for each discipline switched off (negative controls). The real code is bound by "
                      "seeded random derive/mutate programs over every derivation route and user-held buffers; after every call "
                      "TLC re-checks the value of every live object against the reference semantics. The repository's own 836 tests, run "
                      "under an external tracer, are judged by the same validator for 'immutable objects never change' and 'at most the "
                      "target changes' at every public call they make."),
                design='DESIGN.md section 10 (C04)', technique='TLA+ mechanism model (TLC exhaustive, with negative controls) + TLC trace validation with whole-state frame check'),
    'C09': dict(text=("Model-based: PureConstruction on Mech.tla (cache capacity 1, eviction, option changes) plus trace validation "
                      "of long call histories over 330 distinct keys with option flips and mutation of earlier results against "
                      "the history-free Step function - which is exactly the comparison with the same call on cold caches."),
                design='DESIGN.md section 10 (C09)', technique='TLA+ mechanism model of the LRU cache + TLC trace validation of long histories against a history-free step function'),
})

CHECKS.update({
    'C11': dict(text=("Model-based: Mini.tla recomputes every code value and every float->code rounding of the nine small formats "
                      "from the format definitions on bit patterns (half rounding first, nearest/ties-to-even-code on the "
                      "extended grid, overflow after rounding, per-format and per-option special mappings). TLC checks the "
                      "decode/encode round trip on every code; every code and (quick: ~760, thorough: all 65536) half inputs x "
                      "every format x both mxfp_overflow modes go through the real library and TLC compares; random float64 "
                      "midpoints +-1ulp, subnormals, inf/NaN/-0.0, power-of-two scaled dtypes and Arrays of these formats (0.0 / -0.0 "
                      "in one Array, mode changes between appends, scaled next to unscaled) likewise."),
                design='DESIGN.md section 10 (C11)', technique='TLA+ bit-pattern float codec spec + TLC round-trip theorems + exhaustive code tables replayed + TLC trace validation'),
})

CHECKS.update({
    'C14': dict(text=("Model-based: ArraySpec.tla defines an Array as dtype + one bit buffer with Python-list operations on "
                      "w-bit blocks; MC_Array explores the Array state machine exhaustively (52k-377k states) checking that "
                      "decoding commutes with the list model, trailing bits are untouched and failures change nothing; seeded "
                      "random programs over 36 dtypes, all list operations, integer element-wise operators (recomputed by TLC), "
                      "struct-code dtypes and array.array interchange, Arrays over scaled dtypes, astype, fromfile and Dtype attributes are "
                      "validated event by event on the real Array."),
                design='DESIGN.md section 10 (C14)', technique='TLA+ Array state machine (TLC exhaustive) + TLC trace validation of random list/operator programs'),
})

CHECKS.update({
    'C20': dict(text=("Model-based: the envelope (documented exception categories only; len = len(bin); 0 <= pos <= len; immutable "
                      "objects and options unchanged) is a set of clauses of the TLA+ trace validator evaluated by TLC on every "
                      "recorded event; the Step function leaves adversarial calls unconstrained, so only the envelope judges "
                      "them. Seeded adversarial programs call every public callable of the four classes, Array, Dtype and pack "
                      "with arguments of the documented types and arbitrary values, in sequences, under msb0 and lsb0, "
                      "interleaved with fully specified calls and derive-then-mutate programs; the repository's own 836 tests run under an "
                      "external tracer and every public call they make is judged by the same envelope and frame clauses; MC_Core "
                      "proves the same envelope for the specification itself."),
                design='DESIGN.md section 10 (C20)', technique='TLA+ trace validator envelope clauses evaluated by TLC on adversarial call sequences'),
})

CHECKS.update({
    'C19': dict(text=("Model-based (relational): Printable.tla defines what str/repr/pp output must denote; a small trusted lexer "
                      "turns the produced text into digit tokens and layout facts and TLC evaluates the relations on every "
                      "recorded output; MC_Print shows the relations are satisfiable and reject six kinds of corrupted output "
                      "for every content up to 10 bits. There is no separate reachable state space for this property, so the "
                      "model-checking part is small; the weight is on validated outputs over lengths 0..4001, 22 pp format "
                      "specifications, widths 0..200, separators, offsets, no_color, msb0/lsb0 and Array repr over 35 dtypes."),
                design='DESIGN.md section 10 (C19)', technique='TLA+ relational spec of printed text + trusted lexer + TLC evaluation on recorded outputs'),
})

NOT_YET = {
}

NA_REASON = ("check for this property is still under construction in this commit (specification modules and drivers are "
             "being added property by property; see DESIGN.md section 12); it is not claimed until its check passes")


def main():
    props = [json.loads(l)['id'] for l in open(os.path.join(VERIF, 'properties.jsonl'))]
    checks = []
    for pid in props:
        if pid not in CHECKS:
            continue
        c = CHECKS[pid]
        checks.append({
            'property_id': pid,
            'quick_cmd': f'./check {pid} --tier quick',
            'thorough_cmd': f'./check {pid} --tier thorough',
            'evidence_file': f'/verif/evidence/{pid}.json',
            'replay_cmd_template': f'./check {pid} --replay {{path}}',
            'engine': 'tlc-conformance',
            'level_claimed': {'category': 'model_checking', 'text': c['text'], 'design_ref': c['design']},
            'level_note': TRUSTED,
            'technique': c['technique'],
        })
    na = [{'property_id': pid, 'reason': NOT_YET.get(pid, NA_REASON)} for pid in props if pid not in CHECKS]
    man = {
        'version': 1,
        'setup_cmd': 'cd /verif && ./setup.sh',
        'hooks': {
            'guard': 'BITSTRING_VERIF',
            'enable': 'checks import bitstring from /repo (or $VERIF_REPO_ROOT) with BITSTRING_VERIF=1 in the environment',
            'baseline_off_cmd': 'cd /repo && env -u BITSTRING_VERIF /venv/bin/python -m pytest -ra -q -p no:cacheprovider --timeout=900 --continue-on-collection-errors',
            'source_commits': ['8ce2e4762e684219213d6d265bcf94c2529b94cf'],
            'add_only': True,
        },
        'engines': [{
            'name': 'tlc-conformance', 'path': '/verif/check',
            'serves_properties': [c['property_id'] for c in checks],
            'kind_free_text': ('explicit TLA+ specification (spec/*.tla) checked with TLC; programs enumerated by TLC or '
                               'drawn at random are executed on the real package and every recorded event is validated by '
                               'TLC against the specification (spec/Trace.tla)'),
        }],
        'checks': checks,
        'notes': 'exit 2 from a check means machinery failure (specification self-check failed or TLC could not evaluate), never a verdict',
        'not_applicable': na,
    }
    path = os.path.join(VERIF, 'MANIFEST.json')
    with open(path, 'w') as f:
        json.dump(man, f, indent=1)
    r = subprocess.run(['python3-vt', '-c',
                        "import json,jsonschema;jsonschema.validate(json.load(open('%s')), json.load(open('/root/.vp/MANIFEST.schema.json')));print('MANIFEST valid')" % path],
                       capture_output=True, text=True)
    print(r.stdout, r.stderr[-500:])


if __name__ == '__main__':
    main()
