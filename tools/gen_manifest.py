#!/usr/bin/env python3
"""Regenerates /verif/MANIFEST.json from the table below and validates it against the schema."""
import json
import os
import subprocess

VERIF = os.path.dirname(os.path.dirname(os.path.abspath(__file__)))

TRUSTED = ("Trusted base: TLC 1.8 evaluating the TLA+ modules in /verif/spec; the Python runner harness/world.py "
           "(performs the call named in each event and projects s.bin / pos / len of every live object); the JSON "
           "value encoding harness/enc.py. The verdict on every event is TLC's (Trace.tla); Python only generates "
           "inputs, records and classifies rejections against known_findings.json.")

CHECKS = {
    'C01': dict(
        text=("Model-based: (A) TLC checks the slicing/sequence laws of the specification exhaustively for every content "
              "up to 4 (thorough 6) bits and every start/stop/step triple in and beyond range; (B) TLC enumerates every "
              "getslice/getitem/add/radd/mul/len/bool/iter call over contents up to 3 (thorough 5) bits, each replayed on "
              "all four classes by rotating construction routes; (C) seeded random programs at byte/word/kilobit/8192-bit "
              "lengths. Every recorded event (return value, class, pos, exception category, frame of all live objects) is "
              "judged by TLC against Step in spec/Bitstring.tla. Exhaustive within the bounds, sampled beyond."),
        design='DESIGN.md section 9 (C01)', technique='TLA+ spec + TLC exhaustive enumeration replayed into code + TLC trace validation'),
}

NOT_YET = {
}

NA_REASON = ("check for this property is still under construction in this commit (specification modules and drivers are "
             "being added property by property; see DESIGN.md section 12); it is not claimed until its check passes")


def main():
    props = [json.loads(l)['id'] for l in open(os.path.join(VERIF, 'properties.jsonl'))]
    checks = []
    for pid in props:
        if pid not in CHECKS:
            continue
        c = CHECKS[pid]
        checks.append({
            'property_id': pid,
            'quick_cmd': f'./check {pid} --tier quick',
            'thorough_cmd': f'./check {pid} --tier thorough',
            'evidence_file': f'/verif/evidence/{pid}.json',
            'replay_cmd_template': f'./check {pid} --replay {{path}}',
            'engine': 'tlc-conformance',
            'level_claimed': {'category': 'model_checking', 'text': c['text'], 'design_ref': c['design']},
            'level_note': TRUSTED,
            'technique': c['technique'],
        })
    na = [{'property_id': pid, 'reason': NOT_YET.get(pid, NA_REASON)} for pid in props if pid not in CHECKS]
    man = {
        'version': 1,
        'setup_cmd': 'cd /verif && ./setup.sh',
        'hooks': {
            'guard': 'BITSTRING_VERIF',
            'enable': 'checks import bitstring from /repo (or $VERIF_REPO_ROOT) with BITSTRING_VERIF=1 in the environment',
            'baseline_off_cmd': 'cd /repo && env -u BITSTRING_VERIF /venv/bin/python -m pytest -ra -q -p no:cacheprovider --timeout=900 --continue-on-collection-errors',
            'source_commits': [],
            'add_only': True,
        },
        'engines': [{
            'name': 'tlc-conformance', 'path': '/verif/check',
            'serves_properties': [c['property_id'] for c in checks],
            'kind_free_text': ('explicit TLA+ specification (spec/*.tla) checked with TLC; programs enumerated by TLC or '
                               'drawn at random are executed on the real package and every recorded event is validated by '
                               'TLC against the specification (spec/Trace.tla)'),
        }],
        'checks': checks,
        'notes': 'exit 2 from a check means machinery failure (specification self-check failed or TLC could not evaluate), never a verdict',
        'not_applicable': na,
    }
    path = os.path.join(VERIF, 'MANIFEST.json')
    with open(path, 'w') as f:
        json.dump(man, f, indent=1)
    r = subprocess.run(['python3-vt', '-c',
                        "import json,jsonschema;jsonschema.validate(json.load(open('%s')), json.load(open('/root/.vp/MANIFEST.schema.json')));print('MANIFEST valid')" % path],
                       capture_output=True, text=True)
    print(r.stdout, r.stderr[-500:])


if __name__ == '__main__':
    main()
