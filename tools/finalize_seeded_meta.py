#!/usr/bin/env python3
"""Adds to every seeded/<name>/meta.json what was run to confirm the change (from seeded/confirm.json) and which checks
caught it (from seeded/matrix.json)."""
import json
import os

VERIF = os.path.dirname(os.path.dirname(os.path.abspath(__file__)))
SD = os.path.join(VERIF, 'seeded')
conf = json.load(open(os.path.join(SD, 'confirm.json')))
mx = json.load(open(os.path.join(SD, 'matrix.json')))
PORTED = {'C04B', 'C11A', 'C11B', 'C14A', 'C14B', 'C15A', 'C15B', 'C17A', 'C18B', 'C19A', 'C17R', 'C17S', 'C17X', 'C17Y'}
for name in sorted(os.listdir(SD)):
    d = os.path.join(SD, name)
    if not os.path.isdir(d):
        continue
    p = os.path.join(d, 'meta.json')
    m = json.load(open(p))
    c = conf.get(name, {})
    m['name'] = name
    m['breaks_property'] = m.get('property', name[:3])
    m['what_was_run'] = {
        'scratch copy of /repo (current tree) under /dev/shm, patch applied': bool(c.get('applies')),
        'pinned test suite with the patch': c.get('tests'),
        'demo.py with the patch (exit code)': c.get('demo_with_patch'),
        'demo.py without the patch (exit code)': c.get('demo_without'),
        'confirmed': bool(c.get('confirmed')),
        'patch ported by hand onto the repaired tree': name in PORTED,
    }
    runs = mx.get(name, {})
    m['caught_by'] = sorted(k for k, v in runs.items() if v['exit'] == 1 and v['violations'])
    m['not_caught_by'] = sorted(k for k, v in runs.items() if not (v['exit'] == 1 and v['violations']))
    json.dump(m, open(p, 'w'), indent=1)
print('meta.json updated for', len([x for x in os.listdir(SD) if os.path.isdir(os.path.join(SD, x))]), 'changes')
