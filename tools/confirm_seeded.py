#!/usr/bin/env python3
"""Confirm raw seeded changes: for seeded/<P><V>/patch.diff on a scratch copy of /repo (in /dev/shm):
 - the patch applies, - the pinned test suite passes with it, - demo.py fails with it and passes without.
usage: confirm_seeded.py [C01A C02B ...]   writes /verif/seeded/confirm.json"""
import json
import os
import shutil
import subprocess
import sys
import tempfile
from concurrent.futures import ThreadPoolExecutor

VERIF = os.path.dirname(os.path.dirname(os.path.abspath(__file__)))
RAW = os.path.join(VERIF, 'seeded')


def demo(root, path):
    env = dict(os.environ, PYTHONPATH=root, PYTHONDONTWRITEBYTECODE='1')
    env.pop('BITSTRING_VERIF', None)
    p = subprocess.run(['/venv/bin/python', path], cwd='/dev/shm', env=env, capture_output=True, text=True, timeout=600)
    return p.returncode, (p.stdout + p.stderr)[-300:]


def one(name):
    patch = os.path.join(RAW, name, 'patch.diff')
    dm = os.path.join(RAW, name, 'demo.py')
    d = tempfile.mkdtemp(prefix='cs_', dir='/dev/shm')
    res = {'name': name}
    try:
        subprocess.run(['rsync', '-a', '--exclude', '.git', '--exclude', '__pycache__', '/repo/', d + '/'], check=True)
        ap = subprocess.run(f'cd {d} && (git apply --unsafe-paths -p1 {patch} 2>/dev/null || patch -p1 -s -f < {patch})', shell=True,
                            capture_output=True, text=True)
        res['applies'] = ap.returncode == 0
        if not res['applies']:
            res['note'] = ap.stdout[-300:]
            return res
        env = dict(os.environ, PYTHONDONTWRITEBYTECODE='1')
        env.pop('BITSTRING_VERIF', None)
        t = subprocess.run(['/venv/bin/python', '-m', 'pytest', '-q', '-p', 'no:cacheprovider', '--timeout=900', '-x'], cwd=d, env=env,
                           capture_output=True, text=True)
        last = [l for l in t.stdout.splitlines() if l.strip()][-1] if t.stdout.strip() else ''
        res['tests'] = last
        res['tests_pass'] = t.returncode == 0
        rc1, o1 = demo(d, dm)
        rc0, o0 = demo('/repo', dm)
        res['demo_with_patch'] = rc1
        res['demo_without'] = rc0
        res['demo_out'] = o1
        if rc0 != 0:
            res['demo_without_out'] = o0
        res['confirmed'] = res['tests_pass'] and rc1 != 0 and rc0 == 0
        return res
    finally:
        shutil.rmtree(d, ignore_errors=True)


def main():
    names = sys.argv[1:] or sorted(x for x in os.listdir(RAW) if os.path.isdir(os.path.join(RAW, x)))
    with ThreadPoolExecutor(max_workers=8) as ex:
        rs = list(ex.map(one, names))
    path = os.path.join(RAW, 'confirm.json')
    old = json.load(open(path)) if os.path.exists(path) else {}
    for r in rs:
        old[r['name']] = r
        print(r['name'], 'CONFIRMED' if r.get('confirmed') else 'NO', {k: r[k] for k in r if k in ('applies', 'tests', 'demo_with_patch', 'demo_without')})
    json.dump(old, open(path, 'w'), indent=1)


if __name__ == '__main__':
    main()
