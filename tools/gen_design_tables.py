#!/usr/bin/env python3
"""Fills the generated tables of DESIGN.md (between <!-- BEGIN:x --> and <!-- END:x -->) from
known_findings.json, seeded/*/meta.json + seeded/matrix.json + seeded/confirm.json, checks/cNN.py RULE strings and
evidence/*.json."""
import importlib
import json
import os
import re
import sys
import textwrap

VERIF = os.path.dirname(os.path.dirname(os.path.abspath(__file__)))
sys.path.insert(0, VERIF)


def fixed_table():
    ents = json.load(open(os.path.join(VERIF, 'known_findings.json')))['findings']
    conf = {}
    p = os.path.join(VERIF, 'fixed_confirmation.json')
    if os.path.exists(p):
        conf = json.load(open(p))
    lines = ['| id | property | commit | what failed | witness rejected without the fix (clauses) |', '|---|---|---|---|---|']
    for e in ents:
        if e['status'] != 'fixed':
            continue
        what = e['entry'].split(' ', 3)[3].replace('|', '\\|')
        c = conf.get(e['id'], {})
        cl = sorted({x[1] for x in c.get('without_fix', {}).get('rejects', [])}) if c.get('confirmed') else ['not confirmed']
        lines.append(f"| {e['id']} | {e['property']} | `{e['commit']}` | {what} | {', '.join(cl)} |")
    n = sum(1 for e in ents if e['status'] == 'fixed')
    lines.append('')
    lines.append(f'{n} fixed entries ({len({e["commit"] for e in ents if e["status"] == "fixed"})} fix commits).')
    return '\n'.join(lines)


def matrix_table():
    sd = os.path.join(VERIF, 'seeded')
    m = json.load(open(os.path.join(sd, 'matrix.json'))) if os.path.exists(os.path.join(sd, 'matrix.json')) else {}
    conf = json.load(open(os.path.join(sd, 'confirm.json'))) if os.path.exists(os.path.join(sd, 'confirm.json')) else {}
    lines = ['| change | what it does (from its author) | confirmed | caught by (quick tier; violations reported) | not caught by |',
             '|---|---|---|---|---|']
    names = sorted(x for x in os.listdir(sd) if os.path.isdir(os.path.join(sd, x)))
    tot = caught_own = 0
    for n in names:
        meta = json.load(open(os.path.join(sd, n, 'meta.json')))
        summ = meta.get('summary', '').replace('|', '\\|').replace('\n', ' ')
        if len(summ) > 260:
            summ = summ[:257] + '...'
        runs = m.get(n, {})
        yes = [f"{k.split('/')[0]} ({v['violations']})" for k, v in sorted(runs.items()) if v['exit'] == 1 and v['violations']]
        no = [k.split('/')[0] for k, v in sorted(runs.items()) if not (v['exit'] == 1 and v['violations'])]
        tot += 1
        own = runs.get(f'{n[:3]}/quick', {})
        if own.get('exit') == 1 and own.get('violations'):
            caught_own += 1
        c = conf.get(n, {})
        lines.append(f"| {n} | {summ} | {'yes' if c.get('confirmed') else 'NO'} | {', '.join(yes) or '-'} | {', '.join(no) or '-'} |")
    lines.append('')
    lines.append(f'{tot} confirmed changes; {caught_own} caught by the quick tier of the check of the property they were seeded for.')
    return '\n'.join(lines)


def properties_section():
    out = []
    props = {}
    for line in open(os.path.join(VERIF, 'properties.jsonl')):
        p = json.loads(line)
        props[p['id']] = p
    for i in range(1, 21):
        pid = f'C{i:02d}'
        mod = importlib.import_module(f'checks.c{i:02d}')
        out.append(f"### {pid} — {props[pid]['title']}")
        out.append('')
        out.append('\n'.join(textwrap.wrap(mod.RULE, 100)))
        evp = os.path.join(VERIF, 'evidence', f'{pid}.json')
        if os.path.exists(evp):
            ev = json.load(open(evp))
            cov = ev['coverage']
            runs = cov.get('tlc_runs', [])
            mc = [f"{r['module'].replace('.tla', '')}/{os.path.basename(r['cfg']).replace('.cfg', '')}: {r['states']} states"
                  + (f", {r['transitions']} transitions" if r.get('transitions') else '')
                  + (f", {r['generated']} rows" if r.get('generated') else '')
                  + (f", {r['behaviours']} behaviours" if r.get('behaviours') else '')
                  + (' (must be violated: yes)' if r.get('violated') else '') for r in runs]
            out.append('')
            out.append(f"Last {ev['tier']} run (seed {ev['seed']}, {ev['wall_s']} s): {cov['programs_run']} programs, "
                       f"{cov['events_validated']} events judged by TLC, {cov['distinct_nontrivial']} distinct non-trivial call "
                       f"signatures, {cov['states']} TLC states / {cov['transitions']} transitions in total, "
                       f"{cov['rejected_events']} rejected, {ev['violations']} violations"
                       + (f", known findings: {len(cov['known_findings_seen'])}" if cov.get('known_findings_seen') else '') + '.')
            if mc:
                out.append('TLC runs: ' + '; '.join(mc) + '.')
        out.append('')
    return '\n'.join(out)


def main():
    path = os.path.join(VERIF, 'DESIGN.md')
    s = open(path).read()
    for key, fn in (('fixed', fixed_table), ('matrix', matrix_table), ('properties', properties_section)):
        body = fn()
        s, n = re.subn(rf'<!-- BEGIN:{key} -->.*?<!-- END:{key} -->', lambda m: f'<!-- BEGIN:{key} -->\n{body}\n<!-- END:{key} -->', s, flags=re.S)
        assert n == 1, key
    open(path, 'w').write(s)
    print('DESIGN.md tables updated')


if __name__ == '__main__':
    main()
