#!/bin/bash
# usage: tools/run_seeded.sh C01 C03 ...   -> runs both raw seeded patches of each property against its quick check
for pid in "$@"; do
  for v in A B; do
    p=/verif/seeded_raw/$pid/patch$v.diff
    [ -f "$p" ] || continue
    out=$(LINES_OUT=3 /verif/tools/try_mutant.sh "$p" "$pid" quick 2>&1)
    rc=$(echo "$out" | grep -o 'exit=[0-9]*' | tail -1)
    echo "$pid $v $rc :: $(echo "$out" | grep -E 'quick:|PATCH|MACHINERY' | tail -1)"
  done
done
