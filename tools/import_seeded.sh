#!/bin/bash
# usage: tools/import_seeded.sh /dev/shm/agent_out_G1 ...   (files <V>.patch.diff <V>.demo.py <V>.meta.json)
for d in "$@"; do
  for p in "$d"/*.patch.diff; do
    v=$(basename "$p" .patch.diff)
    mkdir -p /verif/seeded/$v
    cp "$p" /verif/seeded/$v/patch.diff; cp "$d/$v.demo.py" /verif/seeded/$v/demo.py; cp "$d/$v.meta.json" /verif/seeded/$v/meta.json
    echo imported $v
  done
done
