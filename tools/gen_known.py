#!/usr/bin/env python3
"""Writes /verif/known_findings.json (committed; never written at run time by the checks).
status=fixed entries record repaired defects: 'fixed: property=<id> <commit> <what failed>'; their witness
programs are part of every run of that property's check (harness/core.py queues them), so the violation is
reported again if it ever returns. status=known entries are matched on what was called with what kind of
input and reported as KNOWN-FINDING."""
import json
import os
import sys

VERIF = os.path.dirname(os.path.dirname(os.path.abspath(__file__)))
sys.path.insert(0, VERIF)
from harness.enc import NONE_I, enc_int, enc_float  # noqa
from harness.drivers import mk, lit, ref, setopt  # noqa

N = NONE_I


def L(bits, kind='bin'):
    return lit(kind, [int(c) for c in bits])


def M(rid, cls, bits, route='bin', pos=N):
    return mk(rid, cls, [int(c) for c in bits], route, pos)


def tok(nm, n=N, val=None):
    return {'nm': nm, 'n': n, 'hv': 0 if val is None else 1, 'val': [0] if val is None else val}


FIXED = [
    ('F-add-class', 'C01', '8f5ef55', "type(Bits('0b1') + BitArray('0b11')) was BitArray: __add__ copied the longer right operand together with its class",
     [M('a', 'Bits', '1'), {'op': 'add', 't': 'a', 'xs': [L('11', 'BitArray')]}]),
    ('F-fromstring-cache', 'C04', 'ba3946b', "BitArray.fromstring('0xff').invert() changed what Bits('0xff') means (shared string-cache store)",
     [M('a', 'BitArray', '11111111', 'fromstring'), {'op': 'invert', 't': 'a', 'sa': ['none'], 'ia': []}, M('b', 'Bits', '11111111', 'auto_bin')]),
    ('F-selfop-pos', 'C06', '46e8c35', "a & a / a | a on a ConstBitStream reset a.pos to 0",
     [M('a', 'ConstBitStream', '1010', 'bin', 3), {'op': 'and', 't': 'a', 'xs': [ref('a')]}, {'op': 'or', 't': 'a', 'xs': [ref('a')]}]),
    ('F-overwrite-self', 'C03', '2090321', "a.overwrite(a, 1) raised AssertionError",
     [M('a', 'BitArray', '011'), {'op': 'overwrite', 't': 'a', 'ia': [1], 'xs': [ref('a')]}]),
    ('F-overwrite-self-pos', 'C06', '1b050c6', "BitStream.overwrite(s, -1) with s itself left pos beyond the end",
     [M('a', 'BitStream', '011', 'bin', 0), {'op': 'overwrite', 't': 'a', 'ia': [-1], 'xs': [ref('a')]}]),
    ('F-rot-empty-range', 'C20', 'f68023c', "rol(1, 1, 1) / ror over an empty range raised ZeroDivisionError",
     [M('a', 'BitArray', '011'), {'op': 'rol', 't': 'a', 'ia': [1, 1, 1]}, {'op': 'ror', 't': 'a', 'ia': [2, 3, 3]}]),
    ('F-findall-empty', 'C07', 'af6d4a3', "findall('') returned matches instead of raising ValueError",
     [M('a', 'Bits', '0110'), {'op': 'findall', 't': 'a', 'ia': [N, N, N, N], 'xs': [L('')]}]),
    ('F-set-range', 'C03', '96a0b59', "set(1, range(-3, 0)) set nothing; s[::-2] = 1 missed bits; range past the end was clipped silently",
     [M('a', 'BitArray', '00000000'), {'op': 'set', 't': 'a', 'sa': ['range'], 'ia': [1, -3, 0, 1]},
      {'op': 'setslice', 't': 'a', 'ia': [N, N, -3], 'va': [enc_int(1)]}, {'op': 'set', 't': 'a', 'sa': ['range'], 'ia': [1, 5, -1, -2]}]),
    ('F-lsb0-setitem-int', 'C12', '180b0ec', "in lsb0 mode set(1, range(0, 3)) and s[0:6:2] = 1 raised AttributeError",
     [setopt('lsb0', 1), M('a', 'BitArray', '00000000'), {'op': 'set', 't': 'a', 'sa': ['range'], 'ia': [1, 0, 3, 1]},
      {'op': 'setslice', 't': 'a', 'ia': [0, 6, 2], 'va': [enc_int(1)]}]),
    ('F-lsb0-step0', 'C20', '6cddcb5', "s[::0] in lsb0 mode raised AssertionError instead of ValueError",
     [setopt('lsb0', 1), M('a', 'BitArray', '0110'), {'op': 'getslice', 't': 'a', 'ia': [N, N, 0]}, {'op': 'delslice', 't': 'a', 'ia': [0, 2, 0]}]),
    ('F-lsb0-negstep', 'C12', 'fa6fbb4', "lsb0 slices with a negative step selected the wrong elements (s[3::-1], s[:1:-2] ...)",
     [setopt('lsb0', 1), M('a', 'BitArray', '011010'), {'op': 'getslice', 't': 'a', 'ia': [3, N, -1]}, {'op': 'getslice', 't': 'a', 'ia': [N, 1, -2]},
      {'op': 'getslice', 't': 'a', 'ia': [4, 0, -3]}, {'op': 'delslice', 't': 'a', 'ia': [N, N, -2]}]),
    ('F-lsb0-empty-slice-assign', 'C12', '16c0f68', "in lsb0 mode s[2:1] = x inserted at the wrong place",
     [setopt('lsb0', 1), M('a', 'BitArray', '00'), {'op': 'setslice', 't': 'a', 'ia': [2, 1, N], 'xs': [L('1')]}]),
    ('F-byteswap-norepeat', 'C03', '14a09ca', "byteswap(2, 0, 8, repeat=False) swapped bytes beyond end; past the data it padded with zeros and returned 1",
     [M('a', 'BitArray', '0000000100000010000000110000010000000101'), {'op': 'byteswap', 't': 'a', 'sa': ['int'], 'ia': [0, 8, 0, 2]},
      M('b', 'BitArray', '111'), {'op': 'byteswap', 't': 'b', 'sa': ['int'], 'ia': [N, N, 0, 2]}]),
    ('F-lsb0-findall-count-chunks', 'C12', 'aef9cb1', "lsb0 findall(count=, bytealigned=True) counted unaligned matches; data longer than one 8192-bit chunk lost / duplicated matches",
     [setopt('lsb0', 1), M('a', 'Bits', '1' * 20), {'op': 'findall', 't': 'a', 'ia': [N, N, 2, 1], 'xs': [L('11')]},
      M('b', 'Bits', '0' * 8300 + '1'), {'op': 'findall', 't': 'b', 'ia': [N, N, N, N], 'xs': [L('1')]},
      M('c', 'Bits', '1' + '0' * 8300), {'op': 'findall', 't': 'c', 'ia': [N, N, N, N], 'xs': [L('1')]}]),
    ('F-lsb0-find-bytealigned', 'C12', '43ff45e', "lsb0 find/rfind with bytealigned=True aligned the msb0 position",
     [setopt('lsb0', 1), M('a', 'Bits', '0' * 8 + '1' + '0' * 10), {'op': 'find', 't': 'a', 'ia': [N, N, 1], 'xs': [L('1')]},
      {'op': 'rfind', 't': 'a', 'ia': [N, N, 1], 'xs': [L('1')]}, M('b', 'Bits', '0' * 10 + '1' + '0' * 8),
      {'op': 'find', 't': 'b', 'ia': [N, N, 1], 'xs': [L('1')]}, {'op': 'rfind', 't': 'b', 'ia': [N, N, 1], 'xs': [L('1')]}]),
    ('F-read-bool-end', 'C06', '41e6b36', "read('bool') at the end of a stream raised ValueError instead of ReadError",
     [M('a', 'BitStream', '1', 'bin', 1), {'op': 'readtok', 't': 'a', 'sa': ['bool'], 'ia': [N]}, {'op': 'peektok', 't': 'a', 'sa': ['bfloat'], 'ia': [N]}]),
    ('F-length-ignored', 'C15', '2342203', "Bits(hex='ff', length=4) ignored the length and produced 8 bits",
     [{'op': 'newval', 'rid': 'a', 'sa': ['Bits', 'hex', 'kw_len', '0'], 'ia': [4], 'va': [[4, 15, 15]]},
      {'op': 'newval', 'rid': 'b', 'sa': ['Bits', 'bits', 'kw_len', '0'], 'ia': [2], 'va': [[8, 1, -1, 1, 1]]}]),
    ('F-namelen-ignored', 'C15', '1e89af8', "Bits(hex0='0') / Bits(bytes0=b'a') accepted a value longer than the length in the keyword name",
     [{'op': 'newval', 'rid': 'a', 'sa': ['Bits', 'hex', 'kw_namelen', '0'], 'ia': [0], 'va': [[4, 0]]},
      {'op': 'newval', 'rid': 'b', 'sa': ['Bits', 'bytes', 'kw_namelen', '0'], 'ia': [0], 'va': [[7, 97]]}]),
    ('F-endian-setter-partial-byte', 'C15', 'de05b96', "a = BitArray(4); a.uintle = 0 silently produced 8 bits",
     [{'op': 'newval', 'rid': 'a', 'sa': ['BitArray', 'uintle', 'prop_sized', '0'], 'ia': [4], 'va': [enc_int(0)]},
      {'op': 'newval', 'rid': 'b', 'sa': ['BitStream', 'intbe', 'prop_sized', '0'], 'ia': [12], 'va': [enc_int(0)]}]),
    ('F-negative-dtype-length', 'C06', 'a29d23c', "readlist([-1]) read an empty bitstring and moved pos backwards",
     [M('a', 'BitStream', '1111111100000000', 'bin', 8), {'op': 'readlistbits', 't': 'a', 'ia': [-1]}, {'op': 'readlistbits', 't': 'a', 'ia': [4, -2]}]),
    ('F-file-window', 'C08', 'b68d8fd', "Bits(filename=f, length=n) with n shorter than the file: ==, hash, count, ~, +, [::-1], negative indices saw the whole file; BitArray dropped the limit",
     [M('a', 'Bits', '000100100011', 'file_len'), {'op': 'eq', 't': 'a', 'xs': [L('000100100011')]}, {'op': 'count', 't': 'a', 'ia': [1]},
      {'op': 'inv', 't': 'a'}, {'op': 'getslice', 't': 'a', 'ia': [N, N, -1]}, {'op': 'getitem', 't': 'a', 'ia': [-1]},
      {'op': 'add', 't': 'a', 'xs': [ref('a')]}, M('b', 'BitArray', '000100100011', 'file_len'), {'op': 'len', 't': 'b'},
      setopt('lsb0', 1), M('c', 'Bits', '0001001000110100', 'file_off'), {'op': 'len', 't': 'c'}]),
    ('F-window-validation', 'C15', '3145f1a', "Bits(bytes=b'ab', offset=17) gave an empty bitstring; negative offsets/lengths were accepted for bytes, BytesIO and bitarray",
     [{'op': 'mkwin', 'rid': 'a', 'sa': ['Bits', 'bytes'], 'ia': [17, N, N], 'xs': [L('0110000101100010')]},
      {'op': 'mkwin', 'rid': 'b', 'sa': ['Bits', 'bytesio'], 'ia': [-8, 4, N], 'xs': [L('0110000101100010')]},
      {'op': 'mkwin', 'rid': 'c', 'sa': ['Bits', 'bitarray_kw'], 'ia': [-1, N, N], 'xs': [L('0110000101100010')]},
      {'op': 'mkwin', 'rid': 'd', 'sa': ['BitArray', 'bytearray'], 'ia': [3, -1, N], 'xs': [L('0110000101100010')]}]),
    ('F-setbits-sharing', 'C04', 'a129239', "Bits(bits=a) shared storage with the mutable a; a.bits = b made a adopt b's / the string cache's storage",
     [M('a', 'BitArray', '0'), {'op': 'mk', 'rid': 'b', 'sa': ['Bits', 'bits_kw'], 'ia': [N], 'xs': [ref('a')]},
      {'op': 'invert', 't': 'a', 'sa': ['none'], 'ia': []}, M('c', 'BitArray', '00'), M('d', 'Bits', '11'),
      {'op': 'setbits', 't': 'c', 'xs': [ref('d')]}, {'op': 'invert', 't': 'c', 'sa': ['none'], 'ia': []},
      M('e', 'BitArray', ''), {'op': 'setbits', 't': 'e', 'xs': [L('11111111', 'hex')]}, {'op': 'invert', 't': 'e', 'sa': ['none'], 'ia': []},
      M('f', 'Bits', '11111111', 'auto_hex')]),
    ('F-setbits-property', 'C04', '75440fc', "a.bits = b through the property setter still shared immutable storage with a mutable object",
     [M('c', 'BitStream', '00'), M('d', 'Bits', '11'), {'op': 'setbits', 't': 'c', 'xs': [ref('d')]}, {'op': 'invert', 't': 'c', 'sa': ['none'], 'ia': []}]),
    ('F-tobitarray-alias', 'C04', 'b494407', "Bits('0xff').tobitarray().clear() emptied the Bits object and later Bits('0xff')",
     [M('a', 'Bits', '11111111', 'auto_hex'), {'op': 'tobitarray', 't': 'a', 'rid': 'e2'}, {'op': 'extmut', 'sa': ['e2'], 'ia': [2]},
      M('b', 'Bits', '11111111', 'auto_hex')]),
    ('F-const-mutators', 'C04', 'caf9307', "ConstBitStream('0xf0').overwrite('0b1', 0) changed an immutable object",
     [M('a', 'ConstBitStream', '11110000', 'bin', 0), {'op': 'overwrite', 't': 'a', 'ia': [0], 'xs': [L('0')]}, {'op': 'append', 't': 'a', 'xs': [L('1')]}]),
    ('F-pos-after-property', 'C06', '410fc6d', "s = BitStream('0xffff', pos=16); s.u8 = 7 left pos 16 on an 8-bit stream",
     [M('a', 'BitStream', '1' * 16, 'bin', 16), {'op': 'setprop', 't': 'a', 'sa': ['u'], 'ia': [8], 'va': [enc_int(7)]},
      M('b', 'BitStream', '1' * 16, 'bin', 16), {'op': 'setbits', 't': 'b', 'xs': [L('1')]}]),
    ('F-strcache-options', 'C09', '9251832', "Bits('ue=3') parsed in msb0 was served from the cache in lsb0 mode (must raise); 'e4m3mxfp=1000' cached across mxfp_overflow",
     [{'op': 'newfmt', 'rid': 'a', 'sa': ['Bits', 'ctor'], 'tk': [tok('ue', N, enc_int(3))], 'ia': [0]}, setopt('lsb0', 1),
      {'op': 'newfmt', 'rid': 'b', 'sa': ['Bits', 'ctor'], 'tk': [tok('ue', N, enc_int(3))], 'ia': [0]}, setopt('lsb0', 0),
      {'op': 'newfmt', 'rid': 'c', 'sa': ['Bits', 'ctor'], 'tk': [tok('e4m3mxfp', N, enc_float(1000.0))], 'ia': [0]}, setopt('mx', 1),
      {'op': 'newfmt', 'rid': 'd', 'sa': ['Bits', 'ctor'], 'tk': [tok('e4m3mxfp', N, enc_float(1000.0))], 'ia': [0]}, setopt('mx', 0),
      {'op': 'newfmt', 'rid': 'e', 'sa': ['Bits', 'ctor'], 'tk': [tok('e4m3mxfp', N, enc_float(1000.0))], 'ia': [0]}]),
    ('F-mxint-rounding', 'C11', '1c21585', "mxint of 0.5000000000000001/64 was encoded as 0 instead of 1 (add-0.5-and-truncate lost precision)",
     [{'op': 'newval', 'rid': 'a', 'sa': ['Bits', 'mxint', 'kw_len', '0'], 'ia': [N], 'va': [enc_float(0.007812500000000002)]},
      {'op': 'newval', 'rid': 'b', 'sa': ['Bits', 'mxint', 'kw_len', '0'], 'ia': [N], 'va': [enc_float(-0.007812500000000002)]}]),
    ('F-array-bitlength', 'C14', 'b6de895', "Array('bytes2', [b'ab', b'cd']) could not be created (item size taken in bytes instead of bits)",
     [{'op': 'anew', 'rid': 'a', 'sa': ['bytes', 'list'], 'ia': [2, 0], 'va': [[7, 97, 98], [7, 99, 100]]}, {'op': 'alen', 't': 'a'},
      {'op': 'agetitem', 't': 'a', 'ia': [1]}, {'op': 'aitemsize', 't': 'a'}]),
    ('F-array-count', 'C14', 'e9a025c', "Array('hex4', ['a', 'b', 'a']).count('a') raised TypeError",
     [{'op': 'anew', 'rid': 'a', 'sa': ['hex', 'list'], 'ia': [4, 0], 'va': [[4, 10], [4, 11], [4, 10]]}, {'op': 'acount', 't': 'a', 'va': [[4, 10]]}]),
    ('F-array-insert-negative', 'C14', 'ccde4a4', "Array.insert(-1, x) with trailing bits misplaced the item; insert(-10, x) raised instead of inserting at the front",
     [{'op': 'anew', 'rid': 'a', 'sa': ['uint', 'list'], 'ia': [4, 0], 'va': [enc_int(1), enc_int(2), enc_int(3)], 'xs': [L('11')]},
      {'op': 'ainsert', 't': 'a', 'ia': [-1], 'va': [enc_int(9)]}, {'op': 'ainsert', 't': 'a', 'ia': [-10], 'va': [enc_int(7)]}]),
    ('F-array-array-width', 'C18', 'cbdf02d', "Array('=l', array.array('l', [1])) accepted 8-byte items into a 4-byte dtype and read [1, 0]",
     [{'op': 'afromarray', 'rid': 'f', 'sa': ['intle', 'l', 'ctor'], 'ia': [32], 'va': [enc_int(1)]}]),
    ('F-array-extslice-partial', 'C14', '0c04a30', "a[::2] = [9, 9, 99] on a uint4 Array overwrote the first items before raising",
     [{'op': 'anew', 'rid': 'a', 'sa': ['uint', 'list'], 'ia': [4, 0], 'va': [enc_int(i) for i in (1, 2, 3, 4, 5)]},
      {'op': 'asetslice', 't': 'a', 'ia': [N, N, 2], 'va': [enc_int(9), enc_int(9), enc_int(99)]}]),
    ('F-pp-zero-division', 'C20', 'd5516e6', "Bits(6).pp('pad:3', sep='') raised ZeroDivisionError",
     [M('a', 'Bits', '000000'), {'op': 'rawcall', 't': 'a', 'sa': ['method', 'pp'], 'raw': [['s', 'pad:3'], ['i', 0], ['s', '']]}]),
    ('F-int-inf-overflow', 'C20', 'b395d42', "Array('uint8', [1]) + float('inf') and Bits(uint=float('inf'), length=8) raised OverflowError",
     [{'op': 'anew', 'rid': 'a', 'sa': ['uint', 'list'], 'ia': [8, 0], 'va': [enc_int(1)]},
      {'op': 'rawcall', 't': 'a', 'sa': ['method', '__add__'], 'raw': [['f', 'inf']]},
      {'op': 'rawcall', 'sa': ['ctor', 'Bits'], 'raw': [], 'rawkw': {'uint': ['f', 'inf'], 'length': ['i', 8]}}]),
    ('F-str-lsb0', 'C19', '99518bd', "in lsb0 mode str()/repr() of a 35-bit value showed the low bits as hex and the high bits as binary, so Bits(str(s)) != s",
     [setopt('lsb0', 1), M('a', 'BitStream', '11110000110010101011110000110010101', 'bin', 3), {'op': 'str_lex', 't': 'a'}, {'op': 'repr_eval', 't': 'a', 'rid': 'e'}]),
    ('F-bitarray-little-endian', 'C08', 'a76046d', "Bits(bitarray('10000000', endian='little')) had bin '10000000' but tobytes() b'\\x01', hex '10', uint 1",
     [M('a', 'Bits', '10000000', 'bitarray_le'), {'op': 'tobytes', 't': 'a', 'sa': ['tobytes']},
      M('b', 'BitArray', '1000000011', 'bitarray_le_kw'), {'op': 'append', 't': 'b', 'xs': [L('1')]}, {'op': 'tobytes', 't': 'b', 'sa': ['tobytes']},
      {'op': 'add', 't': 'a', 'xs': [L('0001', 'bitarray_le')]}]),
    ('F-bytesio-window-lsb0', 'C17', 'e1a4cfc', "in lsb0 mode Bits(io.BytesIO(b), offset=13, length=3) held bits from the wrong end of the covered bytes",
     [setopt('lsb0', 1), {'op': 'mkwin', 'rid': 'a', 'sa': ['Bits', 'bytesio'], 'ia': [13, 3, N], 'xs': [L('1110001011100011')]},
      {'op': 'mkwin', 'rid': 'b', 'sa': ['BitStream', 'bytesio'], 'ia': [1, 4, N], 'xs': [L('0110000011111111')]}]),
    ('F-tofile-lsb0-chunks', 'C17', 'bfb4c9b', "in lsb0 mode tofile wrote the chunks of data longer than one chunk in reverse order",
     [setopt('lsb0', 1), M('a', 'Bits', '0000000100000010000000110000010000000101'), {'op': 'tofile', 't': 'a', 'sa': ['bytesio'], 'ia': [16]},
      {'op': 'tofile', 't': 'a', 'sa': ['path'], 'ia': [8]}]),
    ('F-array-zero-width', 'C20', '0a64d9c', "Array('uint0') was created and len() / append() then raised ZeroDivisionError; a refused a.dtype = ... still replaced the dtype",
     [{'op': 'anew', 'rid': 'a', 'sa': ['uint', 'list'], 'ia': [0, 0], 'va': []},
      {'op': 'anew', 'rid': 'b', 'sa': ['uint', 'list'], 'ia': [8, 0], 'va': [enc_int(1), enc_int(2)]},
      {'op': 'asetdtype', 't': 'b', 'sa': ['bin'], 'ia': [0]}, {'op': 'alen', 't': 'b'}, {'op': 'atolist', 't': 'b'}]),
    ('F-array-pp-zero-width', 'C20', 'bbe7558', "Array.pp('hex:0') raised ZeroDivisionError",
     [{'op': 'anew', 'rid': 'a', 'sa': ['int', 'list'], 'ia': [8, 0], 'va': [enc_int(1)]},
      {'op': 'rawcall', 't': 'a', 'sa': ['method', 'pp'], 'raw': [['s', 'hex:0'], ['i', 100]]},
      {'op': 'rawcall', 't': 'a', 'sa': ['method', 'pp'], 'raw': [['s', 'bin0'], ['i', 100]]}]),
]

KNOWN = [
    {"id": "K-struct-native", "status": "known", "properties": ["C18", "C05"],
     "match": {"op": ["packstruct", "unpackstruct"], "sa1": "@", "native_layout_differs": True},
     "what": ("'@' struct formats use the standard sizes and no alignment (documented by bitstring as identical to '='), so "
              "pack('@l', 1) is 4 bytes where struct.pack('@l', 1) is 8, and mixed-size '@' formats lack struct's padding; not "
              "repaired because it would change documented behaviour"),
     "witness": {"calls": [{"op": "packstruct", "rid": "p", "sa": ["@", "l"], "va": [[2, 0, 1]], "ia": [0]}]}},
]


def main():
    out = {"_comment": ("Known findings of the verification of scott-griffiths/bitstring. status=fixed entries suppress nothing: "
                        "their witness programs run with the property's check and a returning defect is a plain VIOLATION. "
                        "status=known entries are matched on what was called with what kind of input (never on the outcome) "
                        "and reported as KNOWN-FINDING. This file is never written at run time."),
           "findings": []}
    for fid, prop, commit, what, calls in FIXED:
        out["findings"].append({"id": fid, "status": "fixed", "property": prop, "commit": commit,
                                "entry": f"fixed: property={prop} {commit} {what}", "witness": {"calls": calls}})
    out["findings"].extend(KNOWN)
    with open(os.path.join(VERIF, 'known_findings.json'), 'w') as f:
        json.dump(out, f, indent=1)
    print(len(FIXED), 'fixed,', len(KNOWN), 'known')


if __name__ == '__main__':
    main()
