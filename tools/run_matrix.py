#!/usr/bin/env python3
"""Runs seeded changes against checks: for each /verif/seeded/<name>/patch.diff a scratch copy of /repo (in /dev/shm)
gets the patch, the named checks run against the copy (VERIF_REPO_ROOT) and the outcome is recorded in
/verif/seeded/matrix.json as {name: {check/tier: {exit, violations, line}}}.
usage: run_matrix.py [--tier quick] [--checks C04,C08] [names...]   (default: each change against its own property)"""
import json
import os
import shutil
import subprocess
import sys
import tempfile
import time

VERIF = os.path.dirname(os.path.dirname(os.path.abspath(__file__)))
SEEDED = os.path.join(VERIF, 'seeded')


def main():
    args = sys.argv[1:]
    tier = 'quick'
    checks = None
    names = []
    while args:
        a = args.pop(0)
        if a == '--tier':
            tier = args.pop(0)
        elif a == '--checks':
            checks = args.pop(0).split(',')
        else:
            names.append(a)
    if not names:
        names = sorted(x for x in os.listdir(SEEDED) if os.path.isdir(os.path.join(SEEDED, x)))
    path = os.path.join(SEEDED, 'matrix.json')
    for name in names:
        d = tempfile.mkdtemp(prefix='mx_', dir='/dev/shm')
        try:
            subprocess.run(['rsync', '-a', '--exclude', '.git', '--exclude', '__pycache__', '/repo/', d + '/'], check=True)
            patch = os.path.join(SEEDED, name, 'patch.diff')
            ap = subprocess.run(f'cd {d} && (git apply --unsafe-paths -p1 {patch} 2>/dev/null || patch -p1 -s -f < {patch})', shell=True,
                                capture_output=True, text=True)
            if ap.returncode != 0:
                print(name, 'PATCH DID NOT APPLY')
                continue
            for pid in (checks or [name[:3]]):
                t0 = time.time()
                p = subprocess.run([os.path.join(VERIF, 'check'), pid, '--tier', tier], env=dict(os.environ, VERIF_REPO_ROOT=d, VERIF_EVIDENCE_DIR='/dev/shm/mx_evidence'),
                                   capture_output=True, text=True)
                out = p.stdout + p.stderr
                viol = [l for l in out.splitlines() if l.startswith('VIOLATION')]
                summ = [l for l in out.splitlines() if f'{pid} {tier}:' in l]
                rec = {'exit': p.returncode, 'violations': len(viol), 'line': summ[-1] if summ else out[-300:], 'wall': round(time.time() - t0, 1)}
                m = json.load(open(path)) if os.path.exists(path) else {}
                m.setdefault(name, {})[f'{pid}/{tier}'] = rec
                json.dump(m, open(path, 'w'), indent=1, sort_keys=True)
                print(name, pid, tier, 'exit', p.returncode, 'DETECTED' if p.returncode == 1 and viol else ('MACHINERY' if p.returncode == 2 else 'missed'), rec['line'][:160], flush=True)
        finally:
            shutil.rmtree(d, ignore_errors=True)


if __name__ == '__main__':
    main()
