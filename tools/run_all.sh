#!/bin/bash
# usage: tools/run_all.sh [quick|thorough]  - every check in turn on /repo; prints the summary line and exit code of each
tier=${1:-quick}
for i in $(seq -w 1 20); do
  out=$(/verif/check C$i --tier $tier ${SEED:+--seed $SEED} 2>&1); rc=$?
  echo "C$i exit=$rc $(echo "$out" | grep "C$i $tier:" | tail -1)"
  echo "$out" | grep -E "^(VIOLATION|KNOWN-FINDING|MACHINERY)" | head -5
done
