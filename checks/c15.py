"""C15 - out-of-range or mis-sized values are rejected, never wrapped or truncated."""
from harness import codecprogs
from . import codec_common as cc
from .common import ASSUME

RULE = ("(A) MC_Codec(int): RangeLimits - for every width the limits fit and limit+-1, width 0 and negative widths are refused; "
        "BadLengthRefused - patterns of a length not allowed for the type are never reinterpreted. (B) Gen_Codec: every integer "
        "from min-2 to max+2 of every width -1..W, boundary values of the whole-byte types at widths {8,16,24,0,4,12,-8}, digit "
        "strings with matching / mismatching / impossible lengths, bool and bytes with wrong lengths, float lengths {0,8,24,48,"
        "128}, bfloat lengths {8,32,0}, exp-Golomb with a length - each through every creation route (constructor keyword, name "
        "with length, token string, fromstring, Dtype.build, pack x3, property assignment on an empty object, on a sized object "
        "and on an object holding other content). TLC requires CreationError(ValueError) and nothing created / nothing changed "
        "for every non-fitting combination and exactly the requested length for every fitting one. (C) random widths up to 333 "
        "bits with values at, just inside and just outside every limit. The Array element route (construction, append, extend, insert, item assignment) incl. Arrays over power-of-two scaled dtypes interleaved with unscaled Arrays of the same name given the same values; (offset, length) windows over bytes / bytearray / BytesIO / bitarray / files ending up to a byte before, at and after the end of the source (also decided under C17).")


def run(chk):
    thorough = chk.tier == 'thorough'
    W = 8 if thorough else 6
    new_only = lambda r: r['kind'] == 'new'
    cc.run_parts(chk, [('int', W), ('text', W), ('float', W), ('golomb', W)], [('int', 10 if thorough else 8)],
                 row_filter=new_only, read_back=False, setprop=True)
    chk.exhaustive = True
    cc.run_random(chk, codecprogs.random_codec_program, 6000 if thorough else 1500, 15)
    import random
    from harness import arrayprogs, serialprogs
    rng = random.Random(chk.seed * 151 + 15)
    # the Array element route: scaled and unscaled dtypes of the same name given the same values
    chk.queue([arrayprogs.scaled_array_program(rng) for _ in range(2500 if thorough else 600)], 'array-scaled-vs-unscaled')
    chk.queue([arrayprogs.array_program(rng) for _ in range(2000 if thorough else 400)], 'array-elements')
    # windows over byte sources that overrun by less than a byte
    chk.queue([serialprogs.window_program(rng) for _ in range(3000 if thorough else 800)], 'windows')
    chk.queue([serialprogs.tight_window_program(rng) for _ in range(1500 if thorough else 400)], 'windows-at-the-end')
    chk.flush()
    return chk.finish(rule=RULE, assumptions=ASSUME)
