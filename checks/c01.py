"""C01 - every bitstring behaves as the Python sequence of its bits."""
import random

from harness import drivers
from harness.drivers import mk, lit, CLASSES, MEM_ROUTES
from harness.enc import NONE_I

RULE = ("(A) MC_BitSeq: every content up to L bits x every (start, stop, step) triple: slicing laws as invariants. "
        "(B) Gen_C01: TLC enumerates all getslice/getitem/mul/add/radd/len/bool/iter calls over contents up to L bits; "
        "each is replayed on all four classes (construction route rotating) and every recorded event is judged by "
        "Trace.tla. (C) random programs with lengths at byte/word/kilobit boundaries and indices up to +-3*len, under msb0 and (mirrored, as C12 defines it) lsb0. "
        "distinct_nontrivial = distinct (op, class, pos, content, arguments, operand kinds+bits, options) with a "
        "non-empty target or operand.")

KINDS = ['bin', 'bools', 'bitarray', 'hex', 'bytes', 'tuple'] + CLASSES


def programs_from_rows(rows):
    byv = {}
    for r in rows:
        byv.setdefault(tuple(r['v']), []).append(r)
    progs = []
    k = 0
    for v, rs in sorted(byv.items()):
        for ci, cls in enumerate(CLASSES):
            route = MEM_ROUTES[(k + ci) % len(MEM_ROUTES)]
            k += 1
            pos = NONE_I
            if cls in drivers.STREAMS:
                pos = (k % (len(v) + 1))
            calls = [mk('a', cls, list(v), route, pos)]
            for r in rs:
                if r['op'] in ('getslice', 'getitem'):
                    calls.append({'op': r['op'], 't': 'a', 'ia': r['ia']})
                elif r['op'] == 'mul':
                    calls.append({'op': 'mul', 't': 'a', 'ia': r['ia']})
                    calls.append({'op': 'rmul', 't': 'a', 'ia': r['ia']})
                elif r['op'] == 'scalars':
                    calls += [{'op': 'len', 't': 'a'}, {'op': 'lenprop', 't': 'a'}, {'op': 'bool', 't': 'a'},
                              {'op': 'iter', 't': 'a'}, {'op': 'lenprop', 't': 'a', 'sa': ['length']}]
                elif r['op'] == 'add':
                    w = r['w']
                    for kind in KINDS:
                        if kind in ('hex',) and (len(w) % 4 or not w):
                            continue
                        if kind == 'bytes' and len(w) % 8:
                            continue
                        calls.append({'op': 'add', 't': 'a', 'xs': [lit(kind, w)]})
                        calls.append({'op': 'radd', 't': 'a', 'xs': [lit(kind, w)]})
                    calls.append({'op': 'add', 't': 'a', 'xs': [drivers.ref('a')]})
            head, rest = calls[0], calls[1:]
            for i in range(0, max(len(rest), 1), 250):
                progs.append({'calls': [head] + rest[i:i + 250]})
    return progs


def run(chk):
    thorough = chk.tier == 'thorough'
    rng = random.Random(chk.seed * 7919 + 1)
    chk.mc('MC_BitSeq.tla', 'MC_BitSeq_thorough.cfg' if thorough else 'MC_BitSeq.cfg')
    rows = chk.gen('Gen_C01.tla', 'Gen_C01_thorough.cfg' if thorough else 'Gen_C01.cfg')
    chk.run_and_validate(programs_from_rows(rows), 'tlc-enumerated')
    chk.exhaustive = True
    n = 8000 if thorough else 1500
    progs = [drivers.c01_program(rng, lsb0=False, huge=0.03 if thorough else 0.005) for _ in range(n)]
    chk.run_and_validate(progs, 'random')
    # the same sequence operations with the index mirror of lsb0 mode in force (the mirror itself is C12's subject)
    progs = [drivers.c01_program(rng, lsb0=True) for _ in range(2000 if thorough else 400)]
    chk.run_and_validate(progs, 'random-lsb0')
    return chk.finish(rule=RULE, assumptions=[
        'harness/world.py faithfully performs the call named by each event and projects s.bin / pos / len()',
        'TLC evaluates the TLA+ operators correctly; bit contents beyond the enumerated/randomised ones behave alike'])
