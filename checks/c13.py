"""C13 - equality and hashing form a consistent contract across classes and routes."""
from harness import drivers
from harness.drivers import CLASSES
from . import common

RULE = ("(A) MC_Core(compare): Step theorems on every ==/!=/hash/in-set/copy call. (B) Gen_Core(compare): every pair of contents "
        "up to L bits x ==, !=, hash equality, set/dict membership, comparison with non-promotable values (int, float, None, "
        "object), hashability, copies - on all four classes, operand kinds rotating over every promotable type. (C) random "
        "groups of 3-5 objects with equal content built by different classes/routes/positions plus one differing in the "
        "unsampled middle or in length, at lengths incl. 1999/2000/2001/2005/3600/3601/3607/5000, compared pairwise.")


def run(chk):
    thorough = chk.tier == 'thorough'
    L = 4 if thorough else 3
    common.run_families(chk, [('compare', L, 2, L)], CLASSES)
    common.mc_core_vacuity(chk, 'compare')
    chk.exhaustive = True
    common.run_random(chk, drivers.c13_program, 6000 if thorough else 1500, 13)
    chk.flush()
    return chk.finish(rule=RULE, assumptions=common.ASSUME)
