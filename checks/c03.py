"""C03 - in-place mutations equal their sequence-level specification; nothing else moves."""
from harness import drivers
from harness.drivers import MUTABLE
from . import common

RULE = ("(A) MC_Core on every mutator family: frame conditions (bits outside the window and the length untouched), raising "
        "calls change nothing, pos valid, for every content up to L bits x every argument in/at/beyond the ends. "
        "(B) Gen_Core families grow/del/setitem/setslice/range/set/replace/bitwise: TLC enumerates every (content, call) "
        "edge (indices -(n+2)..n+2, None, steps incl. 0 and negative, empty/self operands, integer values at the limits), "
        "each replayed on BitArray and BitStream from rotating positions and construction routes. (B2) behaviours of the Ref machine (Ref.tla: three live "
        "objects, 8 calls each, cross-object operands, lsb0 toggles) printed by tlc -simulate and replayed. (C) random sequences of "
        "3-9 mutations on one object at byte/word/kilobit lengths incl. byteswap with struct strings/ints/iterables, "
        "replace with count/bytealigned. Every event: return value, new content, pos and all other live objects judged by TLC.")


def run(chk):
    thorough = chk.tier == 'thorough'
    if thorough:
        fams = [('grow', 3, 2, 3), ('del', 3, 2, 3), ('setitem', 3, 2, 3), ('setslice', 3, 2, 2), ('range', 3, 2, 3),
                ('set', 3, 2, 3), ('replace', 3, 2, 2), ('bitwise', 3, 2, None)]
    else:
        fams = [('grow', 3, 2, 3), ('del', 2, 2, 2), ('setitem', 3, 2, 3), ('setslice', 2, 1, 1), ('range', 2, 2, 2),
                ('set', 2, 2, 2), ('replace', 2, 1, 1), ('bitwise', 2, 2, None)]
    from concurrent.futures import ThreadPoolExecutor
    vac_pool = ThreadPoolExecutor(max_workers=3)
    vac = [vac_pool.submit(common.mc_core_vacuity, chk, f) for f in (['grow', 'setitem', 'set'] if thorough else ['grow'])]
    join_ref = common.run_ref_machine(chk, mc=False, procs=16 if thorough else 6, num=60 if thorough else 4, thorough=thorough)
    common.run_families(chk, fams, MUTABLE)
    join_ref()
    for v_ in vac:
        v_.result()
    vac_pool.shutdown()
    chk.exhaustive = True
    common.run_random(chk, drivers.c03_program, 8000 if thorough else 1500, 3, huge=0.02 if thorough else 0.0)
    chk.flush()
    return chk.finish(rule=RULE, assumptions=common.ASSUME)
