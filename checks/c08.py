"""C08 - behaviour depends only on bit content, not on where the bits came from."""
import random

from harness import serialprogs, drivers
from .common import ASSUME

RULE = ("The Ref machine has no construction-route component: Step depends on the content only, so validating the same calls on "
        "twins built by different routes against it decides route independence. (B)/(C) seeded random programs: a content "
        "(whole-byte and not, 1..100 bits; thorough also > 2000 bits) is built by three of 17 routes - binary/hex/octal text, "
        "bools, bitarray (positional and keyword), bytes with length, bytes with offset, slice of a larger object, another "
        "object, uint, fromstring, file by name (whole file), file with length shorter than the file, file with unaligned offset "
        "and length, file handle - and the same 3-6 non-mutating calls (slices, indices, ==, hash, count, all/any, +, *, ~, & | ^, "
        "find/rfind/startswith/endswith, tobytes, join, copy) - and, for mutable twins, tofile / tobytes after the mutation - plus use as an operand (append into another object, constructor "
        "argument) and, on mutable classes, a mutation are run on each twin, under msb0 and lsb0. The string-cache route is exercised with history: the literal is first used as an operand of prepend / append / += / insert / overwrite on empty and non-empty mutable objects and as a fromstring / constructor argument of objects that are then changed in place, before the twin is built from the same string. TLC judges every event.")


def run(chk):
    thorough = chk.tier == 'thorough'
    rng = random.Random(chk.seed * 81 + 8)
    k = 5 if thorough else 1
    chk.mc('MC_Serial.tla', 'MC_Serial_quick.cfg')
    chk.queue([serialprogs.route_program(rng, huge=0.05 if thorough else 0.01) for _ in range(1500 * k)], 'random-routes')
    chk.queue([serialprogs.route_program(rng, lsb0=True) for _ in range(700 * k)], 'random-routes-lsb0')
    chk.queue([serialprogs.window_program(rng) for _ in range(600 * k)], 'random-windows')
    chk.queue([serialprogs.cache_route_program(rng, lsb0=(i % 4 == 3)) for i in range(800 * k)], 'string-cache-route')
    chk.flush()
    return chk.finish(rule=RULE, assumptions=ASSUME)
