"""C16 - bit-wise operators and shifts are per-bit boolean functions with fixed length."""
from harness import drivers
from harness.drivers import CLASSES
from . import common

RULE = ("(A) MC_Bitwise: involution, De Morgan, idempotence, s^s=0 and agreement with integer arithmetic for every pair of "
        "contents up to L bits and every shift count; MC_Core(bitwise): Step theorems (operands never updated, raise changes "
        "nothing, new streams at 0, mode independence). (B) Gen_Core(bitwise): every ~ & | ^ (plain, reflected, in-place, "
        "self-operand) and every shift by -2..len+2 on every content up to 3 bits, replayed on all four classes with operand "
        "kinds rotating over str/bytes/list/bitarray/bitstring classes. (C) random programs at 0/1/63/64/65/1024-bit lengths. "
        "distinct_nontrivial counts distinct (op, class, pos, content, args, operands, options) with non-empty target/operand.")


def run(chk):
    thorough = chk.tier == 'thorough'
    chk.mc('MC_Bitwise.tla', 'MC_Bitwise_thorough.cfg' if thorough else 'MC_Bitwise.cfg')
    L = 4 if thorough else 3
    common.run_families(chk, [('bitwise', L, 2, L)], CLASSES, lsb0_modes=(False, True))
    common.mc_core_vacuity(chk, 'bitwise')
    chk.exhaustive = True
    common.run_random(chk, drivers.c16_program, 6000 if thorough else 1500, 16)
    common.run_random(chk, drivers.c16_program, 2000 if thorough else 400, 17, lsb0=True)
    chk.flush()
    return chk.finish(rule=RULE, assumptions=common.ASSUME)
