"""C06 - stream reads consume exactly what they return; the position is always valid."""
from harness import drivers
from harness.drivers import STREAMS
from . import common

RULE = ("(A) MC_Core(stream + mutator families): 0<=pos<=len after every step, reads return the window at the old pos and "
        "advance by it, peeks and failing reads leave pos, documented pos movements of every mutator, new streams at 0 - for "
        "every content up to L bits, every pos, every call. (B) Gen_Core(stream): every setpos/bytepos/bytealign/read/peek/"
        "readlist/readto/find/rfind from every (content, pos); mutator families replayed on BitStream from every position. "
        "(A2)+(B2) Ref.tla: the machine of three live objects (BitStream, BitArray, Bits) explored as a state graph - "
        "0<=pos<=len and fixed classes in every reachable state, the immutable object constant, at most the target changes "
        "per step - and behaviours printed by tlc -simulate (8 calls each over mutators, stream calls, cross-object operands "
        "and lsb0 toggles) replayed on the real classes. (A3) PosMachine.tla: the (length, position) abstraction with the documented movements as actions - Apalache proves 0<=pos<=len inductive (any length) and refutes a negative control; TLC checks that every step of the Ref machine refines it. (C) random sequences of 4-12 stream operations and mutations. token reads (read/peek of one token, readlist/peeklist of random token lists incl. exp-Golomb and length-less tokens) from random positions are included.")


def run(chk):
    thorough = chk.tier == 'thorough'
    L = 4 if thorough else 3
    from concurrent.futures import ThreadPoolExecutor
    vac_pool = ThreadPoolExecutor(max_workers=1)
    vac = vac_pool.submit(common.mc_core_vacuity, chk, 'stream')
    apa_pool = ThreadPoolExecutor(max_workers=1)
    apa = apa_pool.submit(common.prove_pos_machine, chk)
    join_ref = common.run_ref_machine(chk, mc=True, procs=16 if thorough else 6, num=60 if thorough else 4, thorough=thorough)
    common.run_families(chk, [('stream', L, 2, L)], STREAMS)
    mut = [('grow', 3, 2, 3), ('del', 2, 2, 2), ('setitem', 2, 2, 2), ('replace', 2, 1, 1), ('range', 2, 2, None)]
    if thorough:
        mut = [('grow', 3, 2, 3), ('del', 3, 2, 3), ('setitem', 3, 2, 3), ('setslice', 2, 2, 2), ('replace', 2, 2, 2),
               ('range', 2, 2, 2), ('set', 2, 2, 2), ('bitwise', 3, 2, 3)]
    common.run_families(chk, mut, ['BitStream'], all_pos=True)
    join_ref()
    vac.result()
    vac_pool.shutdown()
    apa.result()
    apa_pool.shutdown()
    chk.exhaustive = True
    common.run_random(chk, drivers.c06_program, 8000 if thorough else 1500, 6, huge=0.01 if thorough else 0.0)
    from harness import fmtprogs
    import random
    rng = random.Random(chk.seed * 13 + 66)
    chk.queue([fmtprogs.stream_fmt_program(rng) for _ in range(6000 if thorough else 1500)], 'random-readlist')
    chk.flush()
    return chk.finish(rule=RULE, assumptions=common.ASSUME)
