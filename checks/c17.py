"""C17 - byte and file serialisation is lossless and zero-padded."""
import random

from harness import serialprogs, drivers
from harness.enc import NONE_I
from .common import ASSUME

RULE = ("(A) MC_Serial: for every content up to L bits: tobytes = bits + 0..7 zero bits and nothing else; every (offset, length) "
        "window of the written bytes recovers exactly those bits; chunked writing equals writing at once iff the chunk size is a "
        "whole number of bytes; windows beyond the source / negative are refused. (B)+(C) every content of 0..20 bits on all four "
        "classes through tobytes / bytes() / .bytes / tofile (real file and BytesIO), and seeded random windows (offset, length in, "
        "at and beyond the end, negative) over bytes, bytearray, BytesIO, bitarray, file name and file handle sources; tofile with "
        "the guarded chunk hook at sizes below / at / above / multiples of the chunk size (8, 16, 64, 1024 bits); thorough also "
        "writes one real object larger than the shipped 100 MiB chunk with the hook unset. Array.fromfile (every n around what the source holds; real files and BytesIO) and Array.tobytes / tofile are judged here too and under C14.")


def exhaustive_small(rng):
    progs = []
    for n in range(0, 21):
        calls = []
        for cls in drivers.CLASSES:
            bits = drivers.rand_bits(rng, n)
            if n:
                bits[-1] = 1
            calls.append(drivers.rand_mk(rng, 'a', cls=cls, bits=bits))
            calls[-1]['drop'] = ['*']
            for how in ('tobytes', 'bytes()', 'prop'):
                calls.append({'op': 'tobytes', 't': 'a', 'sa': [how]})
            for how in ('path', 'bytesio'):
                calls.append({'op': 'tofile', 't': 'a', 'sa': [how], 'ia': [NONE_I]})
                calls.append({'op': 'tofile', 't': 'a', 'sa': [how], 'ia': [8]})
        progs.append({'calls': calls})
    return progs


def big_tofile_program():
    """one object just above the shipped chunk size (100 MiB + 5 bits), hook unset"""
    n = 8 * 100 * 1024 * 1024 + 5
    return {'calls': [{'op': 'mkzeros', 'rid': 'a', 'sa': ['BitArray'], 'ia': [n]},
                      {'op': 'setitem', 't': 'a', 'ia': [-1], 'va': [[2, 0, 1]]},
                      {'op': 'tofile_digest', 't': 'a'}]}


def run(chk):
    thorough = chk.tier == 'thorough'
    rng = random.Random(chk.seed * 171 + 17)
    chk.mc('MC_Serial.tla', 'MC_Serial_thorough.cfg' if thorough else 'MC_Serial_quick.cfg')
    chk.queue(exhaustive_small(rng), 'small-contents')
    chk.exhaustive = True
    chk.queue([serialprogs.window_program(rng, big=thorough) for _ in range(8000 if thorough else 2000)], 'random-windows')
    chk.queue([serialprogs.tight_window_program(rng) for _ in range(3000 if thorough else 600)], 'windows-at-the-end')
    from harness import arrayprogs
    chk.queue([arrayprogs.array_convert_program(rng) for _ in range(1500 if thorough else 300)], 'array-fromfile')
    chk.queue([serialprogs.tofile_program(rng) for _ in range(2000 if thorough else 500)], 'random-tofile-chunks')
    chk.queue([serialprogs.tofile_program(rng, lsb0=True) for _ in range(1000 if thorough else 250)], 'random-tofile-chunks-lsb0')
    chk.queue([serialprogs.window_program(rng, lsb0=True) for _ in range(2000 if thorough else 500)], 'random-windows-lsb0')
    chk.queue([serialprogs.large_source_window_program(rng) for _ in range(400 if thorough else 80)], 'windows-over-large-sources')
    chk.flush()
    if thorough:
        from harness import bigfile
        bigfile.check_100mib(chk)
    return chk.finish(rule=RULE, assumptions=ASSUME + ['the guarded hook only changes the chunk size constant of Bits.tofile'])
