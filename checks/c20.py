"""C20 - well-typed misuse fails cleanly and never corrupts an object."""
import random

from harness import advprogs, drivers
from . import common

RULE = ("The envelope is part of the trace validator and applies to every event of every check: the exception category must be a "
        "documented one (ValueError incl. CreationError/InterpretError, IndexError incl. ReadError, TypeError, bitstring.Error "
        "incl. ByteAlignError, OSError) - anything else (AttributeError, AssertionError, KeyError, ZeroDivisionError, "
        "OverflowError, ...) is rejected; after the call len(s) = len(s.bin), 0 <= pos <= len, immutable objects are unchanged "
        "and the options are as before. (A) MC_Core: PosValidAfter / RaiseNoChange / ImmutableNeverUpdated theorems of the Step "
        "function for the mutator and stream families. (C) seeded adversarial programs: every public method, operator, property "
        "read and assignment, constructor keyword, pack and Dtype of the four classes and of Array, each with arguments of its "
        "documented types (typed signature table in harness/advprogs.py) but arbitrary values - negative, zero, large, None, "
        "empty, mismatched lengths, 60 malformed token strings, self as operand - in sequences of 6-16 calls on 1-3 objects, "
        "under msb0 and lsb0, interleaved with fully specified calls so that silent corruption shows against the exact "
        "semantics. Derive-then-mutate programs (pack with bits tokens, Dtype('bits').build, copies, slices, constructors, operators, then in-place changes of the result) show any object a call corrupts through shared storage. (C2) the repository's own 836 tests run under an external tracer (harness/tracer_plugin.py, nothing in the repository changed): every outermost public call they make on a bitstring is recorded with the state of the objects involved and of the other objects the test holds, and judged by the same validator - valid positions, len = len(bin), immutable objects constant, at most the target changes, options untouched - so the existing tests get these clauses evaluated at every step although their own assertions do not mention them. Results of the adversarial calls themselves are not judged (Step leaves them unconstrained).")


def run(chk):
    thorough = chk.tier == 'thorough'
    rng = random.Random(chk.seed * 201 + 20)
    k = 5 if thorough else 1
    # the repository's own tests under the external tracer, judged by the same validator (runs beside the rest)
    from concurrent.futures import ThreadPoolExecutor
    from harness import exttrace
    ext_pool = ThreadPoolExecutor(max_workers=1)
    ext = ext_pool.submit(exttrace.run, chk, thorough)
    common.run_families(chk, [('grow', 2, 2, 2), ('stream', 2, 2, 2)], ['BitStream'])
    chk.queue([advprogs.adversarial_program(rng) for _ in range(2500 * k)], 'adversarial')
    chk.queue([advprogs.adversarial_program(rng, lsb0=True) for _ in range(1200 * k)], 'adversarial-lsb0')
    chk.queue([advprogs.adversarial_array_program(rng) for _ in range(1500 * k)], 'adversarial-array')
    chk.queue([advprogs.adversarial_array_program(rng, lsb0=True) for _ in range(700 * k)], 'adversarial-array-lsb0')
    chk.queue([drivers.c03_program(rng) for _ in range(300 * k)], 'random-mutations')
    chk.queue([drivers.c06_program(rng, lsb0=True) for _ in range(300 * k)], 'random-streams-lsb0')
    # 'never corrupts an object': whatever a call returns is then changed in place while TLC keeps judging every live object
    from harness import isoprogs
    chk.queue([isoprogs.isolation_program(rng, lsb0=(i % 5 == 4)) for i in range(500 * k)], 'isolation')
    chk.queue([isoprogs.derive_then_mutate_program(rng, lsb0=(i % 5 == 4)) for i in range(1200 * k)], 'derive-then-mutate')
    chk.flush()
    ext.result()
    ext_pool.shutdown()
    return chk.finish(rule=RULE, assumptions=common.ASSUME + [
        'the signature table in harness/advprogs.py reflects the documented parameter types'])
