"""Shared structure of the core-alphabet checks: (A) MC_Core theorems per family, (B) TLC-enumerated
edges replayed on the real classes, (C) random programs; all judged by Trace.tla."""
import os
import random

from harness import edges, drivers

ASSUME = [
    'harness/world.py faithfully performs the call named by each event and projects s.bin / pos / len()',
    'TLC evaluates the TLA+ operators correctly',
    'behaviour on contents / arguments outside the enumerated and randomised ones is like on those inside',
]

INVS = ['PosValidAfter', 'NewObjectsAtZero', 'RaiseNoChange', 'ImmutableNeverUpdated', 'LenConsistent', 'FrameOK',
        'PosMoves', 'ReadConsumes', 'FindMovesToMatch', 'SearchConsistent', 'MirrorLaw', 'ModeIndependent']


def mc_core(chk, family, L, LX, workers=16):
    extra = ''.join(f'INVARIANT {i}\n' for i in INVS)
    cfg = edges.write_cfg(chk.wd, f'MC_Core_{family}_{L}_{LX}.cfg', {'Family': f'"{family}"', 'L': L, 'LX': LX},
                          spec='Spec', extra=extra)
    return chk.mc('MC_Core.tla', cfg, workers=workers)


def run_families(chk, fams, classes, lsb0_modes=(False,), all_pos=False, mc=True, reuse=False):
    """fams: list of (family, L, LX, L_mc).  TLC model checking and generation run concurrently;
    the generated edges are queued (chk.flush() runs and validates them)."""
    from concurrent.futures import ThreadPoolExecutor
    with ThreadPoolExecutor(max_workers=5) as ex:
        mcs = [ex.submit(mc_core, chk, fam, Lmc, LX, 4) for fam, L, LX, Lmc in fams if mc and Lmc is not None]
        gens = [(fam, ex.submit(edges.gen_family, chk, fam, L, LX)) for fam, L, LX, Lmc in fams]
        for fam, g in gens:
            rows = g.result()
            for lsb0 in lsb0_modes:
                chk.queue(edges.programs_from_edges(rows, classes, lsb0=lsb0, all_pos=all_pos, reuse=reuse),
                          f'tlc-{fam}-{"lsb0" if lsb0 else "msb0"}')
        for m in mcs:
            m.result()


def run_random(chk, fn, n, seed_salt, **kw):
    rng = random.Random(chk.seed * 1000003 + seed_salt)
    chk.queue([fn(rng, **kw) for _ in range(n)], f'random-{fn.__name__}')
