"""Shared structure of the core-alphabet checks: (A) MC_Core theorems per family, (B) TLC-enumerated
edges replayed on the real classes, (C) random programs; all judged by Trace.tla."""
import os
import random

from harness import edges, drivers

ASSUME = [
    'harness/world.py faithfully performs the call named by each event and projects s.bin / pos / len()',
    'TLC evaluates the TLA+ operators correctly',
    'behaviour on contents / arguments outside the enumerated and randomised ones is like on those inside',
]

INVS = ['PosValidAfter', 'NewObjectsAtZero', 'RaiseNoChange', 'ImmutableNeverUpdated', 'LenConsistent', 'FrameOK',
        'PosMoves', 'ReadConsumes', 'FindMovesToMatch', 'SearchConsistent', 'MirrorLaw', 'ModeIndependent']


def mc_core(chk, family, L, LX, workers=16):
    extra = ''.join(f'INVARIANT {i}\n' for i in INVS)
    cfg = edges.write_cfg(chk.wd, f'MC_Core_{family}_{L}_{LX}.cfg', {'Family': f'"{family}"', 'L': L, 'LX': LX},
                          spec='Spec', extra=extra)
    return chk.mc('MC_Core.tla', cfg, workers=workers)


def run_families(chk, fams, classes, lsb0_modes=(False,), all_pos=False, mc=True, reuse=False):
    """fams: list of (family, L, LX, L_mc).  TLC model checking and generation run concurrently;
    the generated edges are queued (chk.flush() runs and validates them)."""
    from concurrent.futures import ThreadPoolExecutor
    with ThreadPoolExecutor(max_workers=5) as ex:
        mcs = [ex.submit(mc_core, chk, fam, Lmc, LX, 4) for fam, L, LX, Lmc in fams if mc and Lmc is not None]
        gens = [(fam, ex.submit(edges.gen_family, chk, fam, L, LX)) for fam, L, LX, Lmc in fams]
        for fam, g in gens:
            rows = g.result()
            for lsb0 in lsb0_modes:
                chk.queue(edges.programs_from_edges(rows, classes, lsb0=lsb0, all_pos=all_pos, reuse=reuse),
                          f'tlc-{fam}-{"lsb0" if lsb0 else "msb0"}')
        for m in mcs:
            m.result()


def run_random(chk, fn, n, seed_salt, **kw):
    rng = random.Random(chk.seed * 1000003 + seed_salt)
    chk.queue([fn(rng, **kw) for _ in range(n)], f'random-{fn.__name__}')


def run_ref_machine(chk, mc=True, procs=8, num=6, depth=8, thorough=False):
    """spec/Ref.tla: (A) the Ref machine as a state graph - history-level invariants and action properties checked on
    every reachable state; (B) behaviours printed by `tlc -simulate` replayed on the real classes (queued).
    Runs in the background; call the returned function before chk.flush()."""
    from concurrent.futures import ThreadPoolExecutor
    from harness import tlc
    ex = ThreadPoolExecutor(max_workers=2)
    f = ex.submit(chk.mc, 'Ref.tla', 'MC_Ref_thorough.cfg' if thorough else 'MC_Ref.cfg', workers=8 if thorough else 4) if mc else None
    g = ex.submit(tlc.simulate_par, 'Ref.tla', 'MC_Ref_sim.cfg', chk.wd, procs, num, depth + 3, chk.seed + 11)

    def join():
        r = g.result()
        chk.mc_runs.append({'module': 'Ref.tla', 'cfg': 'MC_Ref_sim.cfg', 'mode': f'simulate x{procs} num={num} depth={depth}',
                            'states': r['states'], 'behaviours': len(r['hists']), 'wall_s': round(r['wall'], 2)})
        chk.states += r['states']
        chk.queue(edges.programs_from_histories(r['hists']), 'tlc-simulated-behaviours')
        if f:
            f.result()
        ex.shutdown()
    return join


def run_mech_behaviours(chk, num=400, procs=4, depth=10):
    """Behaviours of the mechanism model with every copy discipline on (spec/MechSim.tla, `tlc -simulate`) replayed on the
    real classes and judged against the reference semantics (queued)."""
    from harness import tlc
    r = tlc.simulate_par('MechSim.tla', 'MC_MechSim.cfg', chk.wd, procs, num, depth + 4, chk.seed + 31)
    chk.mc_runs.append({'module': 'MechSim.tla', 'cfg': 'MC_MechSim.cfg', 'mode': f'simulate x{procs} num={num} depth={depth}',
                        'states': r['states'], 'behaviours': len(r['hists']), 'wall_s': round(r['wall'], 2)})
    chk.states += r['states']
    chk.queue(edges.programs_from_mech_histories(r['hists']), 'tlc-simulated-mechanism-behaviours')


def run_array_behaviours(chk, num=60, procs=4, depth=8):
    """Behaviours of the Array machine (spec/ArraySim.tla, `tlc -simulate`) replayed on the real Array (queued)."""
    from harness import tlc
    r = tlc.simulate_par('ArraySim.tla', 'MC_ArraySim.cfg', chk.wd, procs, num, depth + 4, chk.seed + 41)
    chk.mc_runs.append({'module': 'ArraySim.tla', 'cfg': 'MC_ArraySim.cfg', 'mode': f'simulate x{procs} num={num} depth={depth}',
                        'states': r['states'], 'behaviours': len(r['hists']), 'wall_s': round(r['wall'], 2)})
    chk.states += r['states']
    chk.queue(edges.programs_from_array_histories(r['hists']), 'tlc-simulated-array-behaviours')


# Non-vacuity of the MC_Core theorems: the antecedents each family is there to exercise (measured; spec/MC_CoreVac.tla)
VAC_EXPECT = {
    'stream': ['Raise', 'Updates', 'NewObject', 'ReadOk', 'ReadFails', 'FindHit', 'FindMiss', 'Mirror', 'MirrorChanges',
               'ModeIndependent', 'Immutable'],
    'grow': ['Raise', 'Updates', 'PosToEnd', 'PosAfterWrite', 'Mirror', 'MirrorChanges'],
    'setitem': ['Raise', 'Updates', 'FrameOneBit', 'PosToZero', 'PosKept', 'Mirror', 'MirrorChanges'],
    'bitwise': ['Raise', 'Updates', 'NewObject', 'FrameLength', 'ModeIndependent'],
    'set': ['Raise', 'Updates', 'FrameOneBit', 'Mirror', 'MirrorChanges'],
    'compare': ['Raise', 'NewObject', 'ModeIndependent', 'Immutable'],
    'range': ['Raise', 'Updates', 'FrameWindow', 'Mirror'],
    'del': ['Raise', 'Updates', 'PosToZero', 'PosKept', 'Mirror', 'MirrorChanges'],
}


def mc_core_vacuity(chk, family, L=2, LX=1):
    """Which antecedents of the MC_Core theorems are met somewhere in the enumerated space of this family; the ones the
    family is there to exercise must be (a theorem checked only vacuously is a machinery failure)."""
    import re
    from harness import tlc
    from harness.tlc import MachineryError
    cfg = edges.write_cfg(chk.wd, f'MC_CoreVac_{family}.cfg', {'Family': f'"{family}"', 'L': L, 'LX': LX}, spec='Spec')
    r = tlc.model_check('MC_CoreVac.tla', cfg, chk.wd, workers=1, heap='4g')
    met = {m.group(1): m.group(2) == 'TRUE' for m in re.finditer(r'<<"VAC", "(\w+)", (TRUE|FALSE)>>', r['out'])}
    if not r['ok'] or not met:
        raise MachineryError('vacuity control failed to run:\n' + r['out'][-1500:])
    missing = [a for a in VAC_EXPECT[family] if not met.get(a)]
    chk.mc_runs.append({'module': 'MC_CoreVac.tla', 'cfg': f'{family} L={L} LX={LX}', 'states': r['states'], 'wall_s': r['wall'],
                        'antecedents_met': sorted(k for k, v in met.items() if v)})
    if missing:
        raise MachineryError(f'theorems of MC_Core would be checked vacuously for family {family}: antecedents never met: {missing}')


def prove_pos_machine(chk):
    """Apalache on spec/PosMachine.tla: 0 <= pos <= len is an *inductive* invariant of the documented position movements
    (so it holds for streams of any length), plus a negative control that must be refuted.  (That every step of the Ref
    machine is one of those movements is checked by TLC in MC_Ref*.cfg, property RefinesPosMachine.)  If the tool cannot
    run at all this is noted in the evidence - the bounded TLC checks of the same invariant stand on their own."""
    from harness import tlc
    from harness.tlc import MachineryError
    base = tlc.apalache('PosMachine.tla', 'Init', 'PosValid', 0, chk.wd)
    step = tlc.apalache('PosMachine.tla', 'IndInit', 'PosValid', 1, chk.wd)
    ctrl = tlc.apalache('PosMachine.tla', 'IndInit', 'TooStrong', 1, chk.wd)
    chk.extra_cov['apalache_pos_machine'] = {'Init => PosValid': base, 'PosValid /\\ Next => PosValid\'': step,
                                             'negative control TooStrong': ctrl}
    if 'violated' in (base, step):
        raise MachineryError(f'PosMachine.tla: PosValid is not inductive (base: {base}, step: {step})')
    if ctrl == 'ok':
        raise MachineryError('PosMachine.tla: the negative control was not refuted by Apalache')
    if not (base == step == 'ok' and ctrl == 'violated'):
        chk.notes.append(f'Apalache could not be run on PosMachine.tla ({base} / {step} / {ctrl}); the inductive proof is missing from this run')
