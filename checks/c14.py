"""C14 - Array behaves as a list of fixed-width items over one contiguous bit buffer."""
import random
from concurrent.futures import ThreadPoolExecutor

from harness import arrayprogs
from .common import ASSUME

RULE = ("(A) MC_Array: the Array machine as a state graph - Arrays of 2/3-bit integer items (<= N items, with and without "
        "trailing bits) x every list operation (set/del item, insert, pop, append, reverse, slice deletion and assignment with "
        "steps; indices -(N+1)..N+1; fitting and non-fitting values): decoding the new data equals the Python-list result on the "
        "decoded old items, trailing bits are untouched by item get/set/delete/insert/pop, a raising operation changes nothing "
        "(quick: 52k states / 8M transitions; thorough: 377k / 65M). (B) behaviours of that machine (ArraySim.tla, tlc -simulate: an initial Array and 8 list operations with all their arguments) replayed on the real Array. (C) seeded random programs over 36 dtypes (uint/int 1..65 "
        "bits, be/le/ne, hex, bin, oct, bool, float16/32/64, floatle, bfloat, seven 8/6/4-bit formats, mxint, bytesN, bits) built "
        "from list/tuple/iterator/extend with and without trailing bits: len, itemsize, indexing, slicing, item and slice "
        "assignment (extended slices, wrong sizes, non-fitting values), deletion, append, extend, insert, pop, reverse, count, "
        "tolist, iteration, equals, copy / a[:], dtype change and back, byteswap, tobytes/tofile; element-wise + - * // % << >> "
        "with scalars, in place and not, comparisons, unary - and abs, & | ^, Array op Array with promotion on integer dtypes up "
        "to 16 bits (results recomputed by TLC); struct-code dtypes and array.array interchange for every typecode. Arrays over power-of-two scaled dtypes (data = scaled encodings, tolist = scaled decodings) "
        "next to unscaled ones; 0.0 / -0.0 and mode changes within one Array. astype between dtypes of the same kind of value (integer <-> integer, float-valued <-> float-valued incl. the small formats), fromfile with every n around what the source holds (short sources append what there is and raise EOFError), and the attributes of Dtype objects (canonical name, length, bitlength, bits_per_item, is_signed, variable_length, return type). Element-wise + - * / // % with int and float scalars on float-valued Arrays (floats, bfloat, the small formats, mxint), in place and not: what Python's float arithmetic gives for each item is an oracle *input* recorded with the event; TLC judges the encoding of every result in the Array's dtype, the dtype and length of the result, that one failing item fails the whole operation with ValueError and that a failing in-place operator changes nothing. Array op Array with at least one float-valued side likewise (the promoted dtype - floats over integers, then the longer type, then the first - equal lengths, every result encoded in the promoted dtype). NaN results are left unconstrained.")


def run(chk):
    thorough = chk.tier == 'thorough'
    rng = random.Random(chk.seed * 141 + 14)
    with ThreadPoolExecutor(max_workers=1) as ex:
        mc = ex.submit(chk.mc, 'MC_Array.tla', 'MC_Array.cfg' if thorough else 'MC_Array_quick.cfg', workers=8)
        k = 5 if thorough else 1
        from . import common
        common.run_array_behaviours(chk, num=400 if thorough else 60, procs=4)
        chk.queue([arrayprogs.array_program(rng) for _ in range(2500 * k)], 'random-array-list')
        chk.queue([arrayprogs.array_op_program(rng) for _ in range(1200 * k)], 'random-array-operators')
        chk.queue([arrayprogs.array_struct_program(rng) for _ in range(500 * k)], 'random-array-struct')
        chk.queue([arrayprogs.scaled_array_program(rng) for _ in range(400 * k)], 'random-array-scaled')
        chk.queue([arrayprogs.array_memo_program(rng) for _ in range(300 * k)], 'random-array-equal-values')
        chk.queue([arrayprogs.array_convert_program(rng) for _ in range(400 * k)], 'random-array-astype-fromfile-dtype')
        chk.queue([arrayprogs.array_float_op_program(rng) for _ in range(500 * k)], 'random-array-float-operators')
        chk.flush()
        mc.result()
    return chk.finish(rule=RULE, assumptions=ASSUME + ['float arithmetic inside element-wise operators is taken from Python, not modelled'])
