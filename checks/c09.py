"""C09 - construction and parsing are pure: results never depend on call history."""
import random

from harness import isoprogs
from .common import ASSUME
from .c04 import mech

RULE = ("(A) Mech.tla PureConstruction: over every history of string construction, option changes, mutation and cache "
        "eviction (capacity 1, 2 keys) the constructed value equals what the string denotes under the options in force; the "
        "negative control without options in the cache key must violate it. (B) behaviours of the mechanism model (MechSim.tla, tlc -simulate) replayed on the real classes: construction from a literal key and from a key that reads options.mxfp_overflow, by constructor and fromstring, interleaved with option changes, in-place changes of earlier results and eviction (cache capacity 1 in the model; the same two keys alternate on the real 256-entry cache) - with the options missing from the cache key TLC rejects these behaviours. (C) seeded random histories of ~420 calls each over "
        "330 distinct literal keys with Zipf-like reuse (so all 256-entry LRU caches hit, miss and evict): construction from "
        "bin/hex strings and fromstring, token strings with embedded values incl. option-dependent exp-Golomb tokens, pack / "
        "unpack / readlist with a large family of format strings in several spellings, Dtype creation by name over ~290 lengths, "
        "interleaved with lsb0 / mxfp_overflow / bytealigned changes (and changes back) and in-place mutation of earlier mutable "
        "results. The specification's Step is a function of the arguments and the options only, so TLC judging every call "
        "against it is the comparison with the cold-cache result; the caches are cleared only between programs.")


def run(chk):
    thorough = chk.tier == 'thorough'
    rng = random.Random(chk.seed * 91 + 9)
    chk.queue([isoprogs.history_program(rng) for _ in range(700 if thorough else 160)], 'random-histories')
    chk.queue([isoprogs.history_program(rng, length=80, nkeys=40) for _ in range(2000 if thorough else 400)], 'random-short-histories')
    chk.queue([isoprogs.long_literal_program(rng, lsb0=(i % 5 == 4)) for i in range(600 if thorough else 150)], 'long-literal-reuse')
    from . import common
    common.run_mech_behaviours(chk, num=2000 if thorough else 300, procs=4)
    mech(chk, thorough)
    chk.flush()
    return chk.finish(rule=RULE, assumptions=ASSUME)
