"""C04 - value isolation: immutable objects never change, mutable ones never share state."""
import random
from concurrent.futures import ThreadPoolExecutor

from harness import isoprogs, tlc
from harness.tlc import MachineryError
from .common import ASSUME

RULE = ("(A) Mech.tla: storage objects with an immutable flag, object->storage pointers, the LRU string cache, bitarrays handed "
        "out by tobitarray, and a copy discipline constant per site. TLC explores every history of construct-from-string / "
        "from-object / bits= / fromstring / mutate / tobitarray / mutate-held-buffer / set-option over 3 objects, 5-6 storages, 2 "
        "keys, cache capacity 1: with all disciplines on ImmutableConst, OnlyTargetChanges and PureConstruction hold; with any "
        "single discipline off TLC must find a violating history (negative controls, run every time - a control that passes is a "
        "machinery failure). (B) behaviours of the mechanism model with every discipline on (MechSim.tla, "
        "tlc -simulate, 1200 / 8000 histories of 10 steps with all action parameters) replayed on the real classes: construction "
        "from two cache keys (a literal and a token string that reads options.mxfp_overflow) by constructor and fromstring, "
        "Cls(src), Cls(bits=src), in-place changes, tobitarray() and changes of the returned bitarray, option changes - reverting "
        "any of the repairs that correspond to a discipline (fromstring copy, tobitarray copy, cache key with options, _setbits "
        "copy) makes TLC reject these behaviours. (C) seeded random programs over <= 8 live objects: objects from a small pool of literal strings "
        "(string-cache hits), from user-held bytearray/bitarray/array/memoryview buffers; derivations by constructor, bits=, "
        ".bits, copy, slices, + and radd with literals, & | ^ with self, *, join, pack with bits tokens, Dtype('bits').build/"
        "parse, shifts, ~, read, cut; mutations of either side by every mutator incl. prepend/append of pool literals onto empty "
        "targets, .bits assignment; tobitarray() then mutation of the returned bitarray; mutation of the source buffer. (C2) the "
        "repository's own tests under the external tracer (harness/tracer_plugin.py): every outermost public call they make is "
        "judged by the validator for 'immutable objects never change' and 'at most the target changes' over all objects the test "
        "holds. After "
        "every call TLC re-checks the value of every live object (frame), so any sharing shows at the mutating event.")

CONTROLS = ['no_setbits_copy', 'no_fromstring_copy', 'no_tobitarray_copy', 'no_cachekey_options', 'no_ctor_copy']


def mech(chk, thorough):
    def positive():
        return chk.mc('Mech.tla', 'MC_Mech_disciplined.cfg' if thorough else 'MC_Mech_disciplined_quick.cfg', workers=8)

    def negative(name):
        r = tlc.model_check('Mech.tla', f'MC_Mech_{name}.cfg', chk.wd, workers=2)
        violated = 'is violated' in r['out']
        chk.mc_runs.append({'module': 'Mech.tla', 'cfg': f'MC_Mech_{name}.cfg', 'states': r['states'],
                            'transitions': r['transitions'], 'wall_s': r['wall'],
                            'expected': 'violation (negative control)', 'violated': violated})
        chk.states += r['states']
        chk.transitions += r['transitions']
        if not violated:
            raise MachineryError(f'negative control {name}: the mechanism model no longer distinguishes this discipline')
        return r

    with ThreadPoolExecutor(max_workers=6) as ex:
        fs = [ex.submit(positive)] + [ex.submit(negative, n) for n in CONTROLS]
        for f in fs:
            f.result()


def run(chk):
    thorough = chk.tier == 'thorough'
    rng = random.Random(chk.seed * 41 + 4)
    from harness import exttrace
    ext_pool = ThreadPoolExecutor(max_workers=1)
    ext = ext_pool.submit(exttrace.run, chk, thorough)
    chk.queue([isoprogs.isolation_program(rng) for _ in range(12000 if thorough else 3000)], 'random-isolation')
    chk.queue([isoprogs.isolation_program(rng, lsb0=True) for _ in range(3000 if thorough else 600)], 'random-isolation-lsb0')
    chk.queue([isoprogs.derive_then_mutate_program(rng, lsb0=(i % 5 == 4)) for i in range(4000 if thorough else 1000)], 'derive-then-mutate')
    from harness import codecprogs
    chk.queue([codecprogs.value_history_program(rng) for _ in range(2000 if thorough else 400)], 'value-histories')
    from . import common
    common.run_mech_behaviours(chk, num=2000 if thorough else 300, procs=4)
    mech(chk, thorough)
    chk.flush()
    ext.result()
    ext_pool.shutdown()
    return chk.finish(rule=RULE, assumptions=ASSUME + [
        'identity of returned objects is observed with `is` against the live objects of the program'])
