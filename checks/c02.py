"""C02 - value <-> bits round trip and canonical encoding for every fixed dtype."""
from harness import codecprogs
from . import codec_common as cc
from .common import ASSUME

RULE = ("(A) MC_Codec: every bit pattern up to W bits: Enc(Dec(p)) = p for uint/int/be/le/hex/oct/bin/bool/bytes, two's "
        "complement = arithmetic mod 2^n, le = byte-reversed be; every half-precision pattern: Narrow(Widen(p)) = p at 16, 32 "
        "and 64 bits, bfloat truncation. (B) Gen_Codec: every integer of every width up to W (and boundary values of the "
        "whole-byte types), every short digit string, half-precision values at all three float sizes, sent through every "
        "creation route (keyword+length, keyword with length in the name, token string, fromstring, Dtype.build, pack with "
        "length in token / keyword / value in token, property assignment) on rotating classes and read back through every "
        "reading route (property, property with length, Dtype.parse, unpack, unpack with keyword length, read); every pattern "
        "up to W bits interpreted by every route. (C) random values at 1..333 bits (limits, limits+-1), 8..320-bit endian "
        "ints, arbitrary doubles incl. float32/16 midpoints +-1ulp, subnormals, overflow, inf, nan, -0.0. Value histories: a value stored in a mutable object "
        "(incl. plain property assignment onto a sized object), the object changed in place, the same (dtype, length, value) "
        "created afresh by other routes and read back. TLC judges each "
        "event with EncodeDtype / DecodeDtype of Codec.tla.")


def run(chk):
    thorough = chk.tier == 'thorough'
    W = 8 if thorough else 6
    cc.run_parts(chk, [('int', W), ('text', W), ('float', W), ('pattern', W)],
                 [('int', 10 if thorough else 8), ('half' if thorough else 'halfq', 16)],
                 setprop=False)
    chk.exhaustive = True
    cc.run_random(chk, codecprogs.random_codec_program, 6000 if thorough else 1200, 2)
    cc.run_random(chk, codecprogs.random_pattern_program, 3000 if thorough else 500, 22)
    cc.run_random(chk, codecprogs.equal_but_distinct_program, 1500 if thorough else 300, 23)
    cc.run_random(chk, codecprogs.value_history_program, 3000 if thorough else 600, 24)
    chk.flush()
    return chk.finish(rule=RULE, assumptions=ASSUME + ['sys.byteorder is little (checked by the harness at start-up)'])
