"""C05 - pack, unpack and token strings are mutually inverse and compositional."""
import random

from harness import fmtprogs, drivers
from harness.enc import NONE_I
from .common import ASSUME

RULE = ("(A)+(B) Gen_Format: TLC enumerates every token list up to K tokens over a 14-kind menu (fixed-length, exp-Golomb, pad, "
        "literal, length-less, byte types) x every value assignment incl. non-fitting values; on each row TLC checks the C05 "
        "theorems on the specification (length = sum of token lengths, unpack inverts pack, every split composes by "
        "concatenation, wrong value counts / non-fitting values refused) and the row is replayed through pack (four spellings: "
        "single string, list of strings, multipliers/brackets, keyword lengths, whitespace, 'namen'), unpack, readlist/peeklist "
        "from pos 0 and split reads, and token-string construction with embedded values on all classes. (C) random formats of "
        "0-9 tokens over 24 kinds with conforming, missing, surplus and mis-sized values. The character-level renderer "
        "(harness/world.py render_format) is trusted; the spec works on the flat token list.")


def programs_from_format_rows(rows, rng, chunk=40):
    progs, cur = [], None
    for r in rows:
        if cur is None or len(cur) > chunk:
            cur = []
            progs.append({'calls': cur})
        toks, vals = r['tk'], r['va']
        rt = fmtprogs.read_tokens(toks)
        for style in (0, rng.getrandbits(7) | 1, rng.getrandbits(7) | 2, rng.getrandbits(7) | 4 | 8):
            cur.append({'op': 'pack', 'rid': 'p', 'tk': toks, 'va': vals, 'ia': [style], 'drop': ['*']})
        rstyle = rng.getrandbits(8) & ~4
        cur.append({'op': 'unpack', 't': 'p', 'tk': rt, 'ia': [rstyle]})
        cur.append({'op': 'readlist', 't': 'p', 'tk': rt, 'ia': [rstyle & ~128]})
        cur.append({'op': 'readlist', 't': 'p', 'tk': rt[:1], 'ia': [0]})
        # too few / too many values
        cur.append({'op': 'pack', 'rid': 'p2', 'tk': toks, 'va': vals + [[2, 0, 1]], 'ia': [style]})
        if vals:
            cur.append({'op': 'pack', 'rid': 'p2', 'tk': toks, 'va': vals[:-1], 'ia': [style]})
        # the same bits from a token string with embedded values
        etoks, vi, ok = [], 0, True
        for t in toks:
            if t['nm'] in ('lit', 'pad'):
                etoks.append(t)
            elif vi < len(vals) and vals[vi][0] in (1, 2, 3, 4, 5, 6):
                etoks.append(dict(t, hv=1, val=vals[vi]))
                vi += 1
            else:
                ok = False
                break
        if ok:
            cur.append({'op': 'newfmt', 'rid': 'q', 'sa': [drivers.CLASSES[len(progs) % 4], 'ctor'], 'tk': etoks, 'ia': [rstyle]})
    return progs


def run(chk):
    thorough = chk.tier == 'thorough'
    rng = random.Random(chk.seed * 77 + 5)
    rows = chk.gen('Gen_Format.tla', 'Gen_Format_thorough.cfg' if thorough else 'Gen_Format.cfg', workers=16)
    chk.queue(programs_from_format_rows(rows, rng), 'tlc-format')
    chk.exhaustive = True
    chk.queue([fmtprogs.fmt_program(rng) for _ in range(8000 if thorough else 2000)], 'random-format')
    chk.queue([fmtprogs.fmt_program(rng, lsb0=True) for _ in range(2000 if thorough else 400)], 'random-format-lsb0')
    chk.queue([fmtprogs.struct_program(rng) for _ in range(1500 if thorough else 400)], 'random-struct-tokens')
    chk.flush()
    return chk.finish(rule=RULE, assumptions=ASSUME + ['the format renderer only applies meaning-preserving spellings'])
