"""Shared pieces of the value <-> bits checks (C02, C10, C15)."""
import random
from concurrent.futures import ThreadPoolExecutor

from harness import edges, codecprogs

MC_INVS = ['PatternRoundTrip', 'BadLengthRefused', 'TwosComplementArithmetic', 'LittleIsReversedBig', 'RangeLimits',
           'HalfRoundTrip', 'BFloatRoundTrip', 'GolombTotalCanonical', 'GolombTruncated']


def mc_codec(chk, mode, W, workers=8):
    extra = ''.join(f'INVARIANT {i}\n' for i in MC_INVS)
    cfg = edges.write_cfg(chk.wd, f'MC_Codec_{mode}_{W}.cfg', {'Mode': f'"{mode}"', 'W': W}, spec='Spec', extra=extra)
    return chk.mc('MC_Codec.tla', cfg, workers=workers)


def gen_part(chk, part, W):
    cfg = edges.write_cfg(chk.wd, f'Gen_Codec_{part}.cfg', {'Part': f'"{part}"', 'W': W})
    return chk.gen('Gen_Codec.tla', cfg, outname=f'gen_codec_{part}.ndjson')


def run_parts(chk, parts, mcs, row_filter=None, **kw):
    with ThreadPoolExecutor(max_workers=6) as ex:
        m = [ex.submit(mc_codec, chk, mode, W) for mode, W in mcs]
        g = [(part, ex.submit(gen_part, chk, part, W)) for part, W in parts]
        for part, f in g:
            rows = f.result()
            if row_filter:
                rows = [r for r in rows if row_filter(r)]
            chk.queue(codecprogs.programs_from_codec_rows(rows, **kw), f'tlc-codec-{part}')
        for f in m:
            f.result()


def run_random(chk, fn, n, salt, **kw):
    rng = random.Random(chk.seed * 1000003 + salt)
    chk.queue([fn(rng, **kw) for _ in range(n)], f'random-{fn.__name__}')
