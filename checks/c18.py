"""C18 - struct-code formats match struct/array; endian forms relate by byte reversal."""
import random
import struct
import sys

from harness import fmtprogs, drivers, codecprogs
from harness.enc import NONE_I
from harness.tlc import MachineryError
from .common import ASSUME
from . import codec_common as cc

RULE = ("(A)+(B) Gen_Struct: every prefix (> < = @) x every sequence of up to K codes (b B h H l L i I q Q e f d) x values at "
        "the limits and just outside; TLC checks the layout theorems (standard sizes back to back, native alignment, "
        "little-endian item = byte-reversed big-endian item, unpack inverts pack) and every row is replayed through pack / "
        "unpack / .bytes / tobytes of the library; the expected bytes are the spec's StructToks layout with native sizes for "
        "'@' (platform constants cross-checked against struct.calcsize at start-up). MC_Codec(int): le = byte-reversed be for "
        "every pattern. (C) random codes with counts, random values incl. subnormal/inf/-0.0 floats; random whole-byte contents "
        "interpreted as le/be/ne and byteswapped (twice = identity is judged through the C03 byteswap semantics). Array forms: "
        "Arrays with struct-code and endian dtypes built and extended from array.array of every typecode (accepted exactly when "
        "kind, width and native byte order agree, the items then read back equal; refused otherwise), tolist / tobytes / "
        "byteswap (also decided under C14).")


def platform_check():
    """The platform constants fixed in Format.tla / Codec.tla must hold here."""
    ok = (sys.byteorder == 'little' and struct.calcsize('@l') == 8 and struct.calcsize('@i') == 4
          and struct.calcsize('@q') == 8 and struct.calcsize('@bh') == 4 and struct.calcsize('@bq') == 16)
    if not ok:
        raise MachineryError('platform differs from the constants in spec/Format.tla (NativeLittle, NativeSize)')


def byteswap_program(rng):
    n = 8 * rng.choice([1, 2, 3, 4, 6, 8, 9])
    bits = drivers.rand_bits(rng, n)
    cls = rng.choice(drivers.MUTABLE)
    calls = [drivers.rand_mk(rng, 'a', cls=cls, bits=bits)]
    for name in ('uintle', 'uintbe', 'uintne', 'intle', 'intbe', 'intne'):
        calls.append({'op': 'interp', 't': 'a', 'sa': [name, rng.choice(['prop', 'prop_len', 'unpack']), '0'],
                      'ia': [n]})
    k = rng.choice([0, 1, 2, n // 8])
    for _ in range(2):
        calls.append({'op': 'byteswap', 't': 'a', 'sa': ['int'], 'ia': [NONE_I, NONE_I, NONE_I, k]})
        calls.append({'op': 'interp', 't': 'a', 'sa': [rng.choice(['uintle', 'uintbe']), 'prop', '0'], 'ia': [NONE_I]})
    return {'calls': calls}


def run(chk):
    platform_check()
    thorough = chk.tier == 'thorough'
    rng = random.Random(chk.seed * 181 + 18)
    cc.mc_codec(chk, 'int', 10 if thorough else 8)
    if thorough:
        rows = chk.gen('Gen_Struct.tla', 'Gen_Struct.cfg', workers=16)
    else:
        rows = chk.gen('Gen_Struct.tla', 'Gen_Struct_quick.cfg', workers=16)
    progs, cur = [], None
    for i, r in enumerate(rows):
        if cur is None or len(cur) > 90:
            cur = []
            progs.append({'calls': cur})
        cur.append({'op': 'packstruct', 'rid': 'p', 'sa': r['sa'], 'va': r['va'], 'ia': [i % 8], 'drop': ['*']})
        cur.append({'op': 'unpackstruct', 't': 'p', 'sa': r['sa'], 'ia': [(i + 1) % 8]})
        cur.append({'op': 'tobytes', 't': 'p', 'sa': [['tobytes', 'prop', 'bytes()'][i % 3]]})
    chk.queue(progs, 'tlc-struct')
    chk.exhaustive = True
    chk.queue([fmtprogs.struct_program(rng) for _ in range(6000 if thorough else 1500)], 'random-struct')
    chk.queue([byteswap_program(rng) for _ in range(3000 if thorough else 600)], 'random-byteswap')
    from harness import arrayprogs
    chk.queue([arrayprogs.array_struct_program(rng) for _ in range(2500 if thorough else 600)], 'array-struct-codes')
    chk.flush()
    return chk.finish(rule=RULE, assumptions=ASSUME + ['platform is LP64 little-endian (checked at start-up)'])
