"""C07 - search, split and count results equal the brute-force definition."""
from harness import drivers
from harness.drivers import CLASSES
from . import common

RULE = ("(A) MC_Core(search): find/rfind are the least/greatest brute-force hit, for every content up to L bits, pattern up to "
        "LX bits and window. (B) Gen_Core(search/replace): every find/rfind/findall/startswith/endswith/in/count/cut/split/"
        "replace call with windows in/at/beyond the ends, counts -1..3, on every content up to L bits, replayed on all classes. "
        "(C) random data up to 300 bits (thorough: also 8192-20000 bits) - all-zero/all-one/periodic/random with planted aligned and "
        "unaligned occurrences - with bytealigned in {None, False, True} x options.bytealigned in {False, True} (set via options "
        "and via the module alias). The oracle is the set comprehension Matches() in BitSeq.tla evaluated by TLC on each event.")


def run(chk):
    thorough = chk.tier == 'thorough'
    if thorough:
        fams = [('search', 3, 2, 3), ('replace', 3, 2, None)]
    else:
        fams = [('search', 2, 2, 1), ('replace', 2, 1, None)]
    common.run_families(chk, fams, CLASSES if thorough else ['Bits', 'BitStream'], reuse=True)
    chk.exhaustive = True
    common.run_random(chk, drivers.c07_program, 12000 if thorough else 3000, 7, huge=0.03 if thorough else 0.004)
    chk.flush()
    return chk.finish(rule=RULE, assumptions=common.ASSUME)
