"""C11 - 8-bit, micro-scaling and bfloat codecs decode and round exactly as specified."""
import random
from concurrent.futures import ThreadPoolExecutor

from harness import miniprogs, edges, codecprogs
from .common import ASSUME
from . import codec_common as cc

RULE = ("Mini.tla computes, on bit patterns, the value of every code of p3binary8, p4binary8, e5m2/e4m3/e3m2/e2m3/e2m1 mxfp, e8m0 "
        "and mxint8 from the format definition, and the code for a float: IEEE half rounding first (struct's overflow refusal "
        "included), then round-to-nearest ties-to-even-code on the grid extended by the first special slot, overflow decided "
        "after rounding, with the per-format / mxfp_overflow mapping of overflow, infinities and NaN; bfloat = truncated float32. "
        "(A) Gen_Mini theorems: decode-then-encode returns the code for every non-NaN code under both modes (e5m2 inf / saturate "
        "excepted), encoders are total. (B) every code of every format decoded by five reading routes and its value re-encoded "
        "by nine creation routes under saturate->overflow->saturate; half-precision inputs (quick: every 97th pattern plus +-2 "
        "around every binade and special value; thorough: all 65536) x every format x both modes. (C) random float64 inputs: "
        "midpoints between neighbouring codes +-1 ulp, around 65504/65520 and every format maximum, subnormals, +-inf, NaN, -0.0; "
        "power-of-two scaled dtypes (float, mini formats, mxint, uint/int). Arrays of these formats: 0.0 and -0.0 in one Array in either order, the same out-of-range value appended before and after mxfp_overflow changes, Arrays over scaled dtypes next to unscaled ones. The implementation's look-up tables were generated "
        "independently (gfloat); the spec recomputes every entry from first principles.")


def gen(chk, part, stride):
    cfg = edges.write_cfg(chk.wd, f'Gen_Mini_{part}.cfg', {'Part': f'"{part}"', 'Stride': stride},
                          extra='INVARIANT RoundTrip\nINVARIANT EncodeTotal\n')
    return chk.gen('Gen_Mini.tla', cfg, outname=f'gen_mini_{part}.ndjson', workers=8)


def run(chk):
    thorough = chk.tier == 'thorough'
    rng = random.Random(chk.seed * 111 + 11)
    with ThreadPoolExecutor(max_workers=3) as ex:
        f1 = ex.submit(gen, chk, 'codes', 1)
        f2 = ex.submit(gen, chk, 'half', 1 if thorough else 97)
        f3 = ex.submit(cc.mc_codec, chk, 'half' if thorough else 'halfq', 16)
        chk.queue(miniprogs.programs_from_mini_rows(f1.result()), 'tlc-mini-codes')
        chk.queue(miniprogs.programs_from_mini_rows(f2.result()), 'tlc-mini-half')
        f3.result()
    chk.exhaustive = True
    chk.queue([miniprogs.random_mini_program(rng) for _ in range(8000 if thorough else 1500)], 'random-mini')
    chk.queue([miniprogs.scaled_program(rng) for _ in range(3000 if thorough else 600)], 'random-scaled')
    chk.queue([codecprogs.equal_but_distinct_program(rng) for _ in range(800 if thorough else 200)], 'random-signed-zeros')
    from harness import arrayprogs
    chk.queue([arrayprogs.array_memo_program(rng) for _ in range(1500 if thorough else 300)], 'array-equal-values-and-modes')
    chk.queue([arrayprogs.scaled_array_program(rng) for _ in range(1500 if thorough else 300)], 'array-scaled')
    chk.flush()
    return chk.finish(rule=RULE, assumptions=ASSUME + ['non-power-of-two scales and NaN payloads are outside the model'])
