"""C12 - LSB0 mode is a pure index mirror of MSB0 mode."""
import random

from harness import drivers, edges
from harness.drivers import CLASSES, MUTABLE, setopt
from . import common

RULE = ("(A) MC_Core MirrorLaw/ModeIndependent: for every call of every family, Step under lsb0 equals the reversed Step in "
        "msb0 on the bit-reversed operands; shifts, rotations' direction, ==, hash, count are mode independent. "
        "(B) every Gen_Core family replayed with options.lsb0 = True (sequence, mutators, search, stream). (C) random programs "
        "under lsb0 incl. bytealigned searches and >8192-bit data, and programs that toggle lsb0 between calls on the same "
        "objects (restores msb0 behaviour exactly); values of every dtype created and interpreted by every route, token reads and pack / unpack / readlist of random formats with options.lsb0 set (interpretations identical in both modes, token order mirrored). All judged by TLC with the spec's lsb0 := Rev o msb0 o Rev definitions.")


def toggle_program(rng):
    """msb0 calls, toggle, lsb0 calls, toggle back, msb0 calls on the same object."""
    cls = rng.choice(CLASSES)
    n = drivers.rand_len(rng)
    bits = drivers.rand_bits(rng, n)
    calls = [drivers.rand_mk(rng, 'a', cls=cls, bits=bits)]
    mode = 0
    for _ in range(rng.randint(4, 10)):
        if rng.random() < 0.3:
            mode = 1 - mode
            calls.append(setopt('lsb0', mode, rng.choice(['options', 'module'])))
        r = rng.random()
        if cls in MUTABLE and r < 0.4:
            calls.append(drivers.mutator_call(rng, bits, cls))
        elif cls in drivers.STREAMS and r < 0.7:
            calls.append(drivers.stream_call(rng, bits, cls))
        else:
            calls.append({'op': 'getslice', 't': 'a', 'ia': [drivers.rand_opt_index(rng, n), drivers.rand_opt_index(rng, n),
                                                             drivers.rand_step(rng, n)]})
            calls.append({'op': 'getitem', 't': 'a', 'ia': [drivers.rand_index(rng, n)]})
    return {'calls': calls}


def run(chk):
    thorough = chk.tier == 'thorough'
    if thorough:
        mut = [('grow', 3, 2, 3), ('del', 3, 2, 2), ('setitem', 3, 2, 3), ('setslice', 2, 2, 2), ('range', 3, 2, 2),
               ('set', 3, 2, 2), ('replace', 2, 2, 2)]
        imm = [('search', 3, 2, 2), ('stream', 3, 2, 3)]
    else:
        mut = [('grow', 3, 2, 3), ('del', 2, 2, 2), ('setitem', 2, 2, 2), ('setslice', 2, 1, 1), ('range', 2, 2, 2),
               ('set', 2, 2, 2), ('replace', 2, 1, 1)]
        imm = [('search', 2, 2, 1), ('stream', 3, 2, 3)]
    common.run_families(chk, mut, MUTABLE, lsb0_modes=(True,))
    common.run_families(chk, imm[:1], ['Bits', 'BitStream'], lsb0_modes=(True,), reuse=True)
    common.run_families(chk, imm[1:], ['ConstBitStream', 'BitStream'], lsb0_modes=(True,))
    # C01 slice/index rows under lsb0
    rows = chk.gen('Gen_C01.tla', 'Gen_C01_thorough.cfg' if thorough else 'Gen_C01.cfg')
    from .c01 import programs_from_rows
    progs = programs_from_rows([r for r in rows if r['op'] in ('getslice', 'getitem')])
    for p in progs:
        p['calls'].insert(0, setopt('lsb0', 1))
    chk.queue(progs, 'tlc-slices-lsb0')
    chk.exhaustive = True
    k = 4 if thorough else 1
    common.run_random(chk, drivers.c01_program, 600 * k, 121, lsb0=True)
    common.run_random(chk, drivers.c03_program, 600 * k, 122, lsb0=True)
    common.run_random(chk, drivers.c06_program, 600 * k, 123, lsb0=True)
    common.run_random(chk, drivers.c07_program, 1200 * k, 124, lsb0=True, huge=0.03 if thorough else 0.005)
    # searches in data longer than one 8192-bit search chunk, occurrences planted next to the chunk edges from either end
    common.run_random(chk, drivers.c07_program, 60 * k, 126, lsb0=True, huge=1.0)
    rng = random.Random(chk.seed * 31 + 125)
    chk.queue([toggle_program(rng) for _ in range(800 * k)], 'random-toggle')
    # whole-value interpretations are identical in both modes; pack / unpack / reads mirror their order
    from harness import codecprogs, miniprogs, fmtprogs

    def under_lsb0(p):
        p['calls'].insert(0, setopt('lsb0', 1))
        return p
    for fn, n_ in ((codecprogs.random_codec_program, 300), (codecprogs.random_pattern_program, 200),
                   (codecprogs.value_history_program, 150), (miniprogs.random_mini_program, 150)):
        chk.queue([under_lsb0(fn(rng)) for _ in range(n_ * k)], f'lsb0-{fn.__name__}')
    chk.queue([fmtprogs.fmt_program(rng, lsb0=True) for _ in range(400 * k)], 'lsb0-formats')
    chk.queue([fmtprogs.stream_fmt_program(rng, lsb0=True) for _ in range(300 * k)], 'lsb0-token-reads')
    chk.flush()
    return chk.finish(rule=RULE, assumptions=common.ASSUME)
