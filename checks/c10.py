"""C10 - exponential-Golomb codes: exact codewords, self-delimiting streams."""
from harness import codecprogs
from . import codec_common as cc
from .common import ASSUME

RULE = ("(A) MC_Codec(golomb): every bit string up to W bits as decoder input for ue/se/uie/sie: decoding is total, whatever "
        "decodes re-encodes to exactly the bits consumed (prefix-free, canonical), unsigned codes never give negatives, every "
        "proper prefix of a codeword is refused. (B) Gen_Codec(golomb): every integer in -40..70 through every creation route "
        "and read back; every bit string up to 9 bits read positionally (read/peek token) from every position and through the "
        "whole-string property / Dtype.parse. (C) random integers up to 2^200, streams of 1-8 mixed codewords appended through "
        "the library and read back token by token (peek then read), reads past the end, truncated copies at random cut points.")


def run(chk):
    thorough = chk.tier == 'thorough'
    golomb_only = lambda r: r['name'] in codecprogs.GOLOMB
    cc.run_parts(chk, [('golomb', 6), ('pattern', 6)], [('golomb', 14 if thorough else 12)], row_filter=golomb_only)
    chk.exhaustive = True
    cc.run_random(chk, codecprogs.random_codec_program, 3000 if thorough else 700, 10, golomb=True)
    cc.run_random(chk, codecprogs.golomb_stream_program, 6000 if thorough else 1200, 101)
    cc.run_random(chk, codecprogs.golomb_history_program, 1500 if thorough else 400, 102)
    chk.flush()
    return chk.finish(rule=RULE, assumptions=ASSUME)
