"""C19 - printable forms faithfully describe the value."""
import random

from harness import printprogs
from .common import ASSUME

RULE = ("Printable.tla states what the text must denote, not its layout: str() tokens denote the value (<= 1000 bits) or are "
        "marked truncated and show a prefix; eval(repr()) gives an equal object of the same class and pos, or '...' plus the "
        "true length; pp() digits of each format in order followed by the reported trailing bits equal the value, every group "
        "is whole, every line fits the width unless it holds a single group, no escape sequences under no_color; "
        "eval(repr(Array)) equals the Array. (A) MC_Print: for every content up to 10 bits and 4 widths a canonical rendering "
        "satisfies the relations and six corruptions (wrong digit, dropped token, split group, over-long line, escapes, "
        "unreported trailing bits, wrong class/pos) violate them. (C) seeded programs: lengths 0..70 (every residue mod 3, 4, 8), "
        "96..1011 around the 1000-bit limit, 1024, 2000, 4001, all four classes with pos; pp over 22 format specifications "
        "(bin/hex/oct, one or two formats, explicit and default group sizes) x widths 0..200 x 5 separators x show_offset x "
        "no_color, under msb0 and lsb0; Array repr over 35 dtypes with and without trailing bits. The text is lexed by a small "
        "trusted lexer (harness/world.py); TLC evaluates the relations. pp raising ValueError for data that is not a whole "
        "number of characters is not judged here.")


def run(chk):
    thorough = chk.tier == 'thorough'
    rng = random.Random(chk.seed * 191 + 19)
    k = 5 if thorough else 1
    chk.mc('MC_Print.tla', 'MC_Print.cfg')
    chk.queue([printprogs.print_program(rng) for _ in range(1500 * k)], 'random-print')
    chk.queue([printprogs.print_program(rng, lsb0=True) for _ in range(500 * k)], 'random-print-lsb0')
    chk.queue([printprogs.array_repr_program(rng) for _ in range(600 * k)], 'random-array-repr')
    chk.flush()
    return chk.finish(rule=RULE, assumptions=ASSUME + ['the lexers of str()/pp() output in harness/world.py are correct'])
