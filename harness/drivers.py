"""Random program generators (role C: code -> spec).  Every generator takes a
random.Random seeded from VERIF_SEED, and returns abstract programs for
harness/world.py.  Sizes are biased towards byte / word / kilobit / chunk
boundaries that TLC cannot enumerate exhaustively."""
import random

from .enc import NONE_I, enc_int

CLASSES = ['Bits', 'BitArray', 'ConstBitStream', 'BitStream']
MUTABLE = ['BitArray', 'BitStream']
STREAMS = ['ConstBitStream', 'BitStream']
SMALL_LENS = [0, 1, 2, 3, 4, 5, 6, 7, 8, 9, 10, 12, 15, 16, 17, 23, 24, 25, 31, 32, 33]
MID_LENS = [63, 64, 65, 71, 72, 100, 127, 128, 129, 255, 256, 257]
BIG_LENS = [1023, 1024, 1025, 1999, 2000, 2001, 4095, 4096, 4097]
HUGE_LENS = [8191, 8192, 8193, 16384, 20000]


def rand_len(rng, big=0.08, huge=0.0):
    r = rng.random()
    if r < huge:
        return rng.choice(HUGE_LENS)
    if r < huge + big:
        return rng.choice(BIG_LENS)
    if r < huge + big + 0.25:
        return rng.choice(MID_LENS)
    if r < 0.5:
        return rng.randint(0, 40)
    return rng.choice(SMALL_LENS)


def rand_bits(rng, n):
    style = rng.random()
    if style < 0.12:
        return [0] * n
    if style < 0.24:
        return [1] * n
    if style < 0.36 and n:
        period = rng.randint(1, 9)
        pat = [rng.randint(0, 1) for _ in range(period)]
        return [pat[i % period] for i in range(n)]
    if style < 0.46:
        # sparse
        b = [0] * n
        for _ in range(rng.randint(0, 3)):
            if n:
                b[rng.randrange(n)] = 1
        return b
    x = rng.getrandbits(n) if n else 0
    return [(x >> (n - 1 - i)) & 1 for i in range(n)]


def rand_index(rng, n):
    """an index / position in, at and beyond the ends"""
    r = rng.random()
    if r < 0.5:
        return rng.randint(-n - 2, n + 2)
    if r < 0.6:
        return rng.choice([0, -1, n, -n, n - 1, -n - 1, n + 1, 1])
    if r < 0.7:
        return rng.choice([8, 16, -8, 7, 9, 64, -64])
    if r < 0.75:
        return rng.randint(-3 * n - 5, 3 * n + 5)
    return rng.randint(0, max(n, 1))


def rand_opt_index(rng, n, pnone=0.25):
    return NONE_I if rng.random() < pnone else rand_index(rng, n)


def rand_step(rng, n):
    r = rng.random()
    if r < 0.3:
        return NONE_I
    if r < 0.5:
        return rng.choice([1, -1])
    if r < 0.9:
        return rng.choice([2, -2, 3, -3, 7, -7, 8, -8, 9, n + 1, -(n + 1)] + [rng.randint(-n - 2, n + 2) or 1])
    return rng.choice([1, 2, 64, -64, 100, -100])


def lit(kind, bits):
    return {'k': 'lit', 'kind': kind, 'v': list(bits)}


def ref(oid):
    return {'k': 'obj', 'id': oid}


def lit_kind_for(rng, bits, allow_obj=True):
    n = len(bits)
    kinds = ['bin', 'bools', 'tuple', 'bitarray']
    if n % 4 == 0 and n:
        kinds += ['hex', 'hex']
    if n % 3 == 0 and n:
        kinds.append('oct')
    if n % 8 == 0:
        kinds += ['bytes', 'bytearray']
    if allow_obj:
        kinds += CLASSES
    return rng.choice(kinds)


def rand_operand(rng, n=None, allow_obj=True):
    if n is None:
        n = rand_len(rng)
    bits = rand_bits(rng, n)
    return lit(lit_kind_for(rng, bits, allow_obj), bits)


MEM_ROUTES = ['bin', 'auto_bin', 'auto_hex', 'bools', 'bitarray', 'bitarray_kw', 'bytes_len', 'bytes_off',
              'slice', 'obj', 'uint', 'fromstring', 'auto_oct']


def mk(rid, cls, bits, route='bin', pos=NONE_I):
    return {'op': 'mk', 'rid': rid, 'sa': [cls, route], 'ia': [pos], 'xs': [lit('bin', bits)]}


def rand_mk(rng, rid, cls=None, n=None, routes=MEM_ROUTES, with_pos=True, bits=None):
    cls = cls or rng.choice(CLASSES)
    if bits is None:
        n = rand_len(rng) if n is None else n
        bits = rand_bits(rng, n)
    pos = NONE_I
    if with_pos and cls in STREAMS and rng.random() < 0.7:
        pos = rng.randint(0, len(bits))
    return mk(rid, cls, bits, rng.choice(routes), pos)


def setopt(name, val, how='options'):
    return {'op': 'setopt', 'sa': [name, how], 'ia': [int(val)]}


# ---------------------------------------------------------------------------

def c01_program(rng, lsb0=False, huge=0.0):
    n = rand_len(rng, huge=huge)
    calls = []
    if lsb0:
        calls.append(setopt('lsb0', 1))
    calls.append(rand_mk(rng, 'a', n=n))
    for _ in range(rng.randint(4, 10)):
        r = rng.random()
        if r < 0.45:
            calls.append({'op': 'getslice', 't': 'a',
                          'ia': [rand_opt_index(rng, n), rand_opt_index(rng, n), rand_step(rng, n)]})
        elif r < 0.6:
            calls.append({'op': 'getitem', 't': 'a', 'ia': [rand_index(rng, n)]})
        elif r < 0.72:
            calls.append({'op': 'add', 't': 'a', 'xs': [rand_operand(rng)]})
        elif r < 0.8:
            calls.append({'op': 'radd', 't': 'a', 'xs': [rand_operand(rng)]})
        elif r < 0.88:
            k = rng.choice([-2, -1, 0, 1, 2, 3, 4, 5, 7, 8, 9, 16, 17])
            if n * max(k, 0) > 40000:
                k = 2
            calls.append({'op': rng.choice(['mul', 'rmul']), 't': 'a', 'ia': [k]})
        elif r < 0.92:
            calls.append({'op': 'len', 't': 'a'})
        elif r < 0.95:
            calls.append({'op': 'bool', 't': 'a'})
        elif n <= 300:
            calls.append({'op': 'iter', 't': 'a'})
        else:
            calls.append({'op': 'lenprop', 't': 'a'})
    return {'calls': calls}
