"""Random program generators (role C: code -> spec).  Every generator takes a
random.Random seeded from VERIF_SEED, and returns abstract programs for
harness/world.py.  Sizes are biased towards byte / word / kilobit / chunk
boundaries that TLC cannot enumerate exhaustively."""
import random

from .enc import NONE_I, enc_int

CLASSES = ['Bits', 'BitArray', 'ConstBitStream', 'BitStream']
MUTABLE = ['BitArray', 'BitStream']
STREAMS = ['ConstBitStream', 'BitStream']
SMALL_LENS = [0, 1, 2, 3, 4, 5, 6, 7, 8, 9, 10, 12, 15, 16, 17, 23, 24, 25, 31, 32, 33]
MID_LENS = [63, 64, 65, 71, 72, 100, 127, 128, 129, 255, 256, 257]
BIG_LENS = [1023, 1024, 1025, 1999, 2000, 2001, 4095, 4096, 4097]
HUGE_LENS = [8191, 8192, 8193, 16384, 20000]


def rand_len(rng, big=0.08, huge=0.0):
    r = rng.random()
    if r < huge:
        return rng.choice(HUGE_LENS)
    if r < huge + big:
        return rng.choice(BIG_LENS)
    if r < huge + big + 0.25:
        return rng.choice(MID_LENS)
    if r < 0.5:
        return rng.randint(0, 40)
    return rng.choice(SMALL_LENS)


def rand_bits(rng, n):
    style = rng.random()
    if style < 0.12:
        return [0] * n
    if style < 0.24:
        return [1] * n
    if style < 0.36 and n:
        period = rng.randint(1, 9)
        pat = [rng.randint(0, 1) for _ in range(period)]
        return [pat[i % period] for i in range(n)]
    if style < 0.46:
        # sparse
        b = [0] * n
        for _ in range(rng.randint(0, 3)):
            if n:
                b[rng.randrange(n)] = 1
        return b
    x = rng.getrandbits(n) if n else 0
    return [(x >> (n - 1 - i)) & 1 for i in range(n)]


def rand_index(rng, n):
    """an index / position in, at and beyond the ends"""
    r = rng.random()
    if r < 0.5:
        return rng.randint(-n - 2, n + 2)
    if r < 0.6:
        return rng.choice([0, -1, n, -n, n - 1, -n - 1, n + 1, 1])
    if r < 0.7:
        return rng.choice([8, 16, -8, 7, 9, 64, -64])
    if r < 0.75:
        return rng.randint(-3 * n - 5, 3 * n + 5)
    return rng.randint(0, max(n, 1))


def rand_opt_index(rng, n, pnone=0.25):
    return NONE_I if rng.random() < pnone else rand_index(rng, n)


def rand_step(rng, n):
    r = rng.random()
    if r < 0.3:
        return NONE_I
    if r < 0.5:
        return rng.choice([1, -1])
    if r < 0.9:
        return rng.choice([2, -2, 3, -3, 7, -7, 8, -8, 9, n + 1, -(n + 1)] + [rng.randint(-n - 2, n + 2) or 1])
    return rng.choice([1, 2, 64, -64, 100, -100])


def lit(kind, bits):
    return {'k': 'lit', 'kind': kind, 'v': list(bits)}


def ref(oid):
    return {'k': 'obj', 'id': oid}


def lit_kind_for(rng, bits, allow_obj=True):
    n = len(bits)
    kinds = ['bin', 'bools', 'tuple', 'bitarray', 'bitarray_le', 'gen_truthy']
    if n % 4 == 0 and n:
        kinds += ['hex', 'hex']
    if n % 3 == 0 and n:
        kinds.append('oct')
    if n % 8 == 0:
        kinds += ['bytes', 'bytearray']
    if allow_obj:
        kinds += CLASSES
    return rng.choice(kinds)


def rand_operand(rng, n=None, allow_obj=True):
    if n is None:
        n = rand_len(rng)
    bits = rand_bits(rng, n)
    return lit(lit_kind_for(rng, bits, allow_obj), bits)


MEM_ROUTES = ['bin', 'auto_bin', 'auto_hex', 'bools', 'bitarray', 'bitarray_kw', 'bytes_len', 'bytes_off',
              'slice', 'obj', 'uint', 'fromstring', 'auto_oct', 'bitarray_le', 'bitarray_le_kw', 'gen_truthy', 'map_truthy']


def mk(rid, cls, bits, route='bin', pos=NONE_I):
    return {'op': 'mk', 'rid': rid, 'sa': [cls, route], 'ia': [pos], 'xs': [lit('bin', bits)]}


def rand_mk(rng, rid, cls=None, n=None, routes=MEM_ROUTES, with_pos=True, bits=None):
    cls = cls or rng.choice(CLASSES)
    if bits is None:
        n = rand_len(rng) if n is None else n
        bits = rand_bits(rng, n)
    pos = NONE_I
    if with_pos and cls in STREAMS and rng.random() < 0.7:
        pos = rng.randint(0, len(bits))
    return mk(rid, cls, bits, rng.choice(routes), pos)


def setopt(name, val, how='options'):
    return {'op': 'setopt', 'sa': [name, how], 'ia': [int(val)]}


# ---------------------------------------------------------------------------

def c01_program(rng, lsb0=False, huge=0.0):
    n = rand_len(rng, huge=huge)
    calls = []
    if lsb0:
        calls.append(setopt('lsb0', 1))
    calls.append(rand_mk(rng, 'a', n=n))
    for _ in range(rng.randint(4, 10)):
        r = rng.random()
        if r < 0.45:
            calls.append({'op': 'getslice', 't': 'a',
                          'ia': [rand_opt_index(rng, n), rand_opt_index(rng, n), rand_step(rng, n)]})
        elif r < 0.6:
            calls.append({'op': 'getitem', 't': 'a', 'ia': [rand_index(rng, n)]})
        elif r < 0.72:
            calls.append({'op': 'add', 't': 'a', 'xs': [rand_operand(rng)]})
        elif r < 0.8:
            calls.append({'op': 'radd', 't': 'a', 'xs': [rand_operand(rng)]})
        elif r < 0.88:
            k = rng.choice([-2, -1, 0, 1, 2, 3, 4, 5, 7, 8, 9, 16, 17])
            if n * max(k, 0) > 40000:
                k = 2
            calls.append({'op': rng.choice(['mul', 'rmul']), 't': 'a', 'ia': [k]})
        elif r < 0.92:
            calls.append({'op': 'len', 't': 'a'})
        elif r < 0.95:
            calls.append({'op': 'bool', 't': 'a'})
        elif n <= 300:
            calls.append({'op': 'iter', 't': 'a'})
        else:
            calls.append({'op': 'lenprop', 't': 'a'})
    return {'calls': calls}


# ---------------------------------------------------------------------------
# helpers for operands related to the target (same length, sub-patterns, self)

def related_operand(rng, tbits, oid='a', allow_self=True):
    """An operand likely to be interesting for the target content."""
    n = len(tbits)
    r = rng.random()
    if allow_self and r < 0.08:
        return ref(oid)
    if r < 0.35 and n:
        # a sub-sequence of the target (so that searches hit)
        a = rng.randrange(n)
        b = min(n, a + rng.choice([1, 2, 3, 4, 7, 8, 9, 16, 17]))
        bits = tbits[a:b]
        return lit(lit_kind_for(rng, bits), bits)
    if r < 0.55:
        bits = rand_bits(rng, n)          # same length (for bit-wise operators)
        return lit(lit_kind_for(rng, bits), bits)
    if r < 0.62:
        return lit(lit_kind_for(rng, []), [])
    return rand_operand(rng, rng.choice([1, 1, 2, 3, 4, 5, 7, 8, 9, 12, 16, 24]))


def opt_ba(rng):
    return rng.choice([NONE_I, NONE_I, 0, 1])


def rand_window(rng, n):
    r = rng.random()
    if r < 0.3:
        return NONE_I, NONE_I
    a = rand_opt_index(rng, n, 0.3)
    b = rand_opt_index(rng, n, 0.3)
    if r < 0.8 and a != NONE_I and b != NONE_I:
        # make most windows valid
        na = a + n if a < 0 else a
        nb = b + n if b < 0 else b
        if na > nb:
            a, b = b, a
    return a, b


def mutator_call(rng, tbits, cls, oid='a', wide=True):
    """One random mutating call for a target whose current content is (believed to be) tbits."""
    n = len(tbits)
    ops = ['append', 'prepend', 'iadd', 'insert', 'overwrite', 'delitem', 'delslice', 'setitem', 'setslice',
           'replace', 'reverse', 'rol', 'ror', 'set', 'invert', 'byteswap', 'ilshift', 'irshift', 'imul',
           'iand', 'ior', 'ixor', 'clear']
    weights = [3, 3, 3, 4, 4, 3, 4, 4, 6, 5, 3, 3, 3, 5, 4, 5, 2, 2, 1, 2, 2, 2, 1]
    opn = rng.choices(ops, weights)[0]
    c = {'op': opn, 't': oid}
    if opn in ('append', 'prepend', 'iadd'):
        c['xs'] = [related_operand(rng, tbits, oid)]
    elif opn in ('insert', 'overwrite'):
        c['xs'] = [related_operand(rng, tbits, oid)]
        p = rand_index(rng, n)
        if cls in STREAMS and rng.random() < 0.25:
            p = NONE_I
        c['ia'] = [p]
    elif opn == 'delitem':
        c['ia'] = [rand_index(rng, n)]
    elif opn == 'delslice':
        c['ia'] = [rand_opt_index(rng, n), rand_opt_index(rng, n), rand_step(rng, n)]
    elif opn == 'setitem':
        c['ia'] = [rand_index(rng, n)]
        if rng.random() < 0.5:
            c['va'] = [enc_int(rng.choice([0, 1, -1, 2, -2, 1, 0]))]
        else:
            c['xs'] = [rand_operand(rng, rng.choice([0, 1, 1, 1, 2, 3, 8]))]
    elif opn == 'setslice':
        a, b, st = rand_opt_index(rng, n), rand_opt_index(rng, n), rand_step(rng, n)
        c['ia'] = [a, b, st]
        r = rng.random()
        if r < 0.35:
            # integer value at / inside / outside the range limits of the slice width
            w = len(list(range(n))[slice(None if a == NONE_I else a, None if b == NONE_I else b)]) if (st in (NONE_I, 1)) else 0
            if w and rng.random() < 0.8:
                cand = [0, 1, -1, (1 << w) - 1, 1 << w, -(1 << (w - 1)), -(1 << (w - 1)) - 1, (1 << (w - 1)) - 1,
                        rng.getrandbits(w)]
            else:
                cand = [0, 1, -1, 2, 5, -3]
            c['va'] = [enc_int(rng.choice(cand))]
        elif r < 0.6 and st not in (NONE_I, 1, 0):
            # a value of exactly the right size for the extended slice
            k = len(range(*slice(None if a == NONE_I else a, None if b == NONE_I else b, st).indices(n)))
            bits = rand_bits(rng, k)
            c['xs'] = [lit(lit_kind_for(rng, bits), bits)]
        else:
            c['xs'] = [related_operand(rng, tbits, oid)]
    elif opn == 'replace':
        a, b = rand_window(rng, n)
        old = related_operand(rng, tbits, oid, allow_self=False)
        new = related_operand(rng, tbits, oid)
        c['xs'] = [old, new]
        c['ia'] = [a, b, rng.choice([NONE_I, NONE_I, 0, 1, 2, 3]), opt_ba(rng)]
    elif opn == 'reverse':
        a, b = rand_window(rng, n)
        c['ia'] = [a, b]
    elif opn in ('rol', 'ror'):
        a, b = rand_window(rng, n)
        c['ia'] = [rng.choice([0, 1, 2, 3, 7, 8, 9, n, n + 1, 2 * n + 3, -1, rng.randint(0, max(1, 3 * n))]), a, b]
    elif opn == 'set':
        v = rng.choice([0, 1, 1, True, False]) and 1
        k = rng.random()
        if k < 0.15:
            c['sa'] = ['none']
            c['ia'] = [int(v)]
        elif k < 0.45:
            c['sa'] = ['int']
            c['ia'] = [int(v), rand_index(rng, n)]
        elif k < 0.75:
            c['sa'] = [rng.choice(['list', 'tuple', 'iter'])]
            c['ia'] = [int(v)] + [rand_index(rng, n) if rng.random() < 0.25 else rng.randint(-n, n - 1) if n else 0
                                  for _ in range(rng.randint(0, 6))]
        else:
            c['sa'] = ['range']
            a = rng.randint(-n - 1, n + 1)
            b = rng.randint(-n - 1, n + 2)
            c['ia'] = [int(v), a, b, rng.choice([1, 1, 2, 3, -1, -2, 8])]
    elif opn == 'invert':
        k = rng.random()
        if k < 0.2:
            c['sa'] = ['none']
            c['ia'] = []
        elif k < 0.55:
            c['sa'] = ['int']
            c['ia'] = [rand_index(rng, n)]
        else:
            c['sa'] = [rng.choice(['list', 'tuple', 'iter'])]
            c['ia'] = [rand_index(rng, n) if rng.random() < 0.25 else rng.randint(-n, n - 1) if n else 0
                       for _ in range(rng.randint(0, 6))]
    elif opn == 'byteswap':
        a, b = rand_window(rng, n)
        if rng.random() < 0.5 and n >= 8:
            # byte aligned windows are the interesting ones
            a = 8 * rng.randint(0, n // 8) if rng.random() < 0.7 else a
        k = rng.random()
        rep = rng.choice([NONE_I, 0, 1])
        if k < 0.2:
            c['sa'] = ['none']
            c['ia'] = [a, b, rep]
        elif k < 0.5:
            c['sa'] = ['int']
            c['ia'] = [a, b, rep, rng.choice([0, 1, 2, 3, 4, 8, -1])]
        elif k < 0.75:
            c['sa'] = ['list']
            c['ia'] = [a, b, rep] + [rng.choice([0, 1, 2, 3, 4]) for _ in range(rng.randint(0, 4))]
        else:
            codes = 'bBhHlLiIqQefd'
            size = {'b': 1, 'B': 1, 'h': 2, 'H': 2, 'l': 4, 'L': 4, 'i': 4, 'I': 4, 'q': 8, 'Q': 8, 'e': 2, 'f': 4, 'd': 8}
            fmt = rng.choice(['', '<', '>', '=', '@'])
            sizes = []
            for _ in range(rng.randint(1, 3)):
                ch = rng.choice(codes)
                cnt = rng.choice([None, None, 1, 2, 3])
                fmt += (str(cnt) if cnt else '') + ch
                sizes += [size[ch]] * (cnt or 1)
            c['sa'] = ['str', fmt]
            c['ia'] = [a, b, rep] + sizes
    elif opn in ('ilshift', 'irshift'):
        c['ia'] = [rng.choice([0, 1, 2, 7, 8, 9, n - 1, n, n + 1, -1, 64])]
    elif opn == 'imul':
        k = rng.choice([0, 1, 2, 3, -1, 5])
        if n * max(k, 0) > 30000:
            k = 1
        c['ia'] = [k]
    elif opn in ('iand', 'ior', 'ixor'):
        if rng.random() < 0.85:
            bits = rand_bits(rng, n)
            c['xs'] = [lit(lit_kind_for(rng, bits), bits)] if rng.random() < 0.9 else [ref(oid)]
        else:
            c['xs'] = [rand_operand(rng, rng.choice([0, 1, n + 1, max(n - 1, 0)]))]
    return c


def c03_program(rng, lsb0=False, huge=0.0, cls=None):
    cls = cls or rng.choice(MUTABLE)
    n = rand_len(rng, huge=huge)
    bits = rand_bits(rng, n)
    calls = []
    if lsb0:
        calls.append(setopt('lsb0', 1))
    if rng.random() < 0.15:
        calls.append(setopt('ba', 1))
    calls.append(rand_mk(rng, 'a', cls=cls, bits=bits))
    for _ in range(rng.randint(3, 9)):
        # the generator does not track the content exactly; operands related to the
        # *initial* content are still good candidates
        calls.append(mutator_call(rng, bits, cls))
    return {'calls': calls}


def stream_call(rng, tbits, cls, oid='a'):
    n = len(tbits)
    r = rng.random()
    c = {'t': oid}
    if r < 0.14:
        c.update(op='setpos', sa=[rng.choice(['pos', 'pos', 'bitpos'])], ia=[rand_index(rng, n)])
    elif r < 0.18:
        c.update(op='setpos', sa=['bytepos'], ia=[rng.randint(-1, n // 8 + 1)])
    elif r < 0.26:
        c.update(op='getpos', sa=[rng.choice(['pos', 'bitpos', 'bytepos'])])
    elif r < 0.32:
        c.update(op='bytealign')
    elif r < 0.48:
        c.update(op=rng.choice(['readbits', 'readbits', 'peekbits']),
                 ia=[rng.choice([0, 1, 2, 3, 7, 8, 9, 16, n, n + 1, -1, rng.randint(0, max(n, 1))])])
    elif r < 0.53:
        name = rng.choice(['uint', 'int', 'hex', 'bin', 'oct', 'bool', 'bits', 'bytes', 'ue', 'se', 'uie', 'sie', 'ue', 'se',
                           'uintbe', 'intle', 'float', 'pad'])
        if name in ('ue', 'se', 'uie', 'sie'):
            ln = NONE_I
        elif name == 'float':
            ln = rng.choice([16, 32, 64])
        elif name in ('uintbe', 'intle'):
            ln = rng.choice([8, 16, 24])
        elif name == 'bytes':
            ln = rng.choice([0, 1, 2, NONE_I])
        elif name == 'hex':
            ln = rng.choice([0, 4, 8, 12, NONE_I])
        elif name == 'oct':
            ln = rng.choice([0, 3, 6, NONE_I])
        elif name == 'bool':
            ln = rng.choice([NONE_I, 1])
        else:
            ln = rng.choice([1, 2, 3, 7, 8, 9, 16, n, n + 1, NONE_I, 0])
        c.update(op=rng.choice(['readtok', 'readtok', 'peektok']), sa=[name, str(rng.randint(0, 2))], ia=[ln])
    elif r < 0.58:
        c.update(op=rng.choice(['readlistbits', 'peeklistbits']),
                 ia=[rng.choice([0, 1, 2, 3, 8, 8, 1, -1]) for _ in range(rng.randint(0, 4))])
    elif r < 0.66:
        c.update(op='readto', xs=[related_operand(rng, tbits, oid, allow_self=False)], ia=[opt_ba(rng)])
    elif r < 0.8:
        a, b = rand_window(rng, n)
        c.update(op=rng.choice(['find', 'rfind']), xs=[related_operand(rng, tbits, oid, allow_self=False)],
                 ia=[a, b, opt_ba(rng)])
    elif r < 0.84:
        c.update(op=rng.choice(['copy_m', 'copy_c']))
    elif r < 0.88:
        c.update(op='getslice', ia=[rand_opt_index(rng, n), rand_opt_index(rng, n), rand_step(rng, n)])
    elif r < 0.91:
        c.update(op=rng.choice(['add', 'and', 'or', 'xor']), xs=[lit('bin', rand_bits(rng, n))])
    elif r < 0.94:
        c.update(op=rng.choice(['eq', 'ne']), xs=[lit('bin', list(tbits))])
    elif cls in MUTABLE:
        return mutator_call(rng, tbits, cls, oid)
    else:
        c.update(op='len')
    return c


def c06_program(rng, lsb0=False, huge=0.0):
    cls = rng.choice(STREAMS + ['BitStream'])
    n = rand_len(rng, huge=huge)
    bits = rand_bits(rng, n)
    calls = []
    if lsb0:
        calls.append(setopt('lsb0', 1))
    calls.append(rand_mk(rng, 'a', cls=cls, bits=bits))
    for _ in range(rng.randint(4, 12)):
        if cls == 'BitStream' and rng.random() < 0.35:
            calls.append(mutator_call(rng, bits, cls))
        else:
            calls.append(stream_call(rng, bits, cls))
    return {'calls': calls}


def search_data(rng, huge=0.0):
    """data with planted occurrences of a pattern (aligned and unaligned, overlapping)"""
    r = rng.random()
    plen = rng.choice([1, 2, 3, 4, 5, 7, 8, 8, 9, 12, 15, 16, 16, 17, 24, 32])
    pat = rand_bits(rng, plen)
    if r < huge:
        n = rng.choice([8192, 8200, 9000, 16384, 16500, 20000])
    elif r < 0.3:
        n = rng.choice([0, 1, 7, 8, 9, 15, 16, 17, 24, 31, 32, 33, 40, 64])
    else:
        n = rng.randint(0, 300)
    style = rng.random()
    if style < 0.25:
        data = [0] * n
    elif style < 0.35:
        data = [1] * n
    elif style < 0.55 and plen:
        data = [pat[i % plen] for i in range(n)]     # periodic: overlapping matches everywhere
    else:
        data = rand_bits(rng, n)
    for _ in range(rng.randint(0, 5)):
        if n >= plen:
            pos = rng.randrange(n - plen + 1)
            if rng.random() < 0.5:
                pos -= pos % 8
            data[pos:pos + plen] = pat
    if n >= 8192 and plen:
        # occurrences that start or end next to a multiple of 8192 counted from either end (the searches work in
        # chunks of that size, from the left in msb0 and from the right in lsb0)
        for _ in range(rng.randint(1, 4)):
            c = 8192 * rng.randint(1, n // 8192)
            pos = c + rng.choice([-plen - 1, -plen, -plen + 1, -1, 0, 1])
            if rng.random() < 0.5:
                pos = n - pos - plen
            if 0 <= pos <= n - plen:
                data[pos:pos + plen] = pat
    return data, pat


def c07_program(rng, lsb0=False, huge=0.0):
    data, pat = search_data(rng, huge)
    n = len(data)
    cls = rng.choice(CLASSES)
    calls = []
    if lsb0:
        calls.append(setopt('lsb0', 1))
    if rng.random() < 0.35:
        calls.append(setopt('ba', 1, rng.choice(['options', 'module'])))
    calls.append(rand_mk(rng, 'a', cls=cls, bits=data))
    for _ in range(rng.randint(3, 8)):
        r = rng.random()
        if r < 0.7:
            p = pat
        elif r < 0.8:
            p = []
        else:
            p = rand_bits(rng, rng.choice([1, 2, 3, 8, 9, 16]))
        x = lit(lit_kind_for(rng, p), p)
        a, b = rand_window(rng, n)
        k = rng.random()
        if k < 0.2:
            calls.append({'op': 'find', 't': 'a', 'xs': [x], 'ia': [a, b, opt_ba(rng)]})
        elif k < 0.38:
            calls.append({'op': 'rfind', 't': 'a', 'xs': [x], 'ia': [a, b, opt_ba(rng)]})
        elif k < 0.56:
            calls.append({'op': 'findall', 't': 'a', 'xs': [x],
                          'ia': [a, b, rng.choice([NONE_I, NONE_I, 0, 1, 2, 5, -1]), opt_ba(rng)]})
        elif k < 0.62:
            calls.append({'op': 'contains', 't': 'a', 'xs': [x]})
        elif k < 0.7:
            calls.append({'op': rng.choice(['startswith', 'endswith']), 't': 'a', 'xs': [x], 'ia': [a, b]})
        elif k < 0.74:
            calls.append({'op': 'count', 't': 'a', 'ia': [rng.choice([0, 1, 2, -1])]})
        elif k < 0.82:
            calls.append({'op': 'cut', 't': 'a',
                          'ia': [rng.choice([1, 2, 3, 7, 8, 9, 16, 64, 0, -1, max(n, 1)]), a, b,
                                 rng.choice([NONE_I, NONE_I, 0, 1, 3, -1])]})
        elif k < 0.92:
            calls.append({'op': 'split', 't': 'a', 'xs': [x],
                          'ia': [a, b, rng.choice([NONE_I, NONE_I, 0, 1, 2, 3, -1]), opt_ba(rng)]})
        elif cls in MUTABLE:
            new = rand_bits(rng, rng.choice([0, 1, len(p), len(p) + 1, 8]))
            calls.append({'op': 'replace', 't': 'a', 'xs': [x, lit(lit_kind_for(rng, new), new)],
                          'ia': [a, b, rng.choice([NONE_I, NONE_I, 0, 1, 2]), opt_ba(rng)]})
            calls.append(rand_mk(rng, 'a', cls=cls, bits=data))
        else:
            calls.append({'op': 'contains', 't': 'a', 'xs': [x]})
    return {'calls': calls}


def c16_program(rng, lsb0=False):
    n = rng.choice([0, 1, 2, 7, 8, 9, 31, 32, 33, 63, 64, 65, 127, 128, 129, 1023, 1024, 1025, rng.randint(0, 100)])
    bits = rand_bits(rng, n)
    cls = rng.choice(CLASSES)
    calls = []
    if lsb0:
        calls.append(setopt('lsb0', 1))
    calls.append(rand_mk(rng, 'a', cls=cls, bits=bits))
    for _ in range(rng.randint(4, 9)):
        r = rng.random()
        if r < 0.1:
            calls.append({'op': 'inv', 't': 'a'})
        elif r < 0.55:
            opn = rng.choice(['and', 'or', 'xor', 'rand', 'ror_', 'rxor', 'iand', 'ior', 'ixor'])
            k = rng.random()
            if k < 0.1:
                x = ref('a')
            elif k < 0.85:
                w = rand_bits(rng, n)
                kind = lit_kind_for(rng, w)
                if opn in ('rand', 'ror_', 'rxor') and kind in ('bitarray', 'bitarray_le'):
                    kind = 'bools'
                x = lit(kind, w)
            else:
                x = rand_operand(rng, rng.choice([0, 1, n + 1, max(0, n - 1), 8]))
            if x['k'] == 'obj' and opn in ('rand', 'ror_', 'rxor'):
                opn = opn[1:].rstrip('_')
            calls.append({'op': opn, 't': 'a', 'xs': [x]})
        else:
            opn = rng.choice(['lshift', 'rshift', 'ilshift', 'irshift'])
            calls.append({'op': opn, 't': 'a',
                          'ia': [rng.choice([0, 1, 2, 7, 8, 9, 63, 64, 65, n - 1, n, n + 1, 2 * n + 1, -1, -5])]})
    return {'calls': calls}


def c13_program(rng):
    n = rng.choice([0, 1, 7, 8, 9, 64, 100, 1999, 2000, 2001, 2005, 3600, 3601, 3607, 5000, rng.randint(0, 300)])
    bits = rand_bits(rng, n)
    calls = []
    ids = []
    # several objects with the same content, different classes / routes / positions
    for i in range(rng.randint(2, 4)):
        oid = 'o%d' % i
        calls.append(rand_mk(rng, oid, bits=bits))
        ids.append((oid, calls[-1]['sa'][0]))
    # one that differs: in the unsampled middle for long strings, or in length
    other = list(bits)
    k = rng.random()
    if n and k < 0.5:
        pos = n // 2 if n > 2000 else rng.randrange(n)
        other[pos] ^= 1
    elif k < 0.75:
        other = other + [0]
    elif n:
        other = other[:-1]
    calls.append(rand_mk(rng, 'd', bits=other))
    ids.append(('d', calls[-1]['sa'][0]))
    for _ in range(rng.randint(5, 12)):
        (t, tc), (x, xc) = rng.choice(ids), rng.choice(ids)
        r = rng.random()
        if r < 0.3:
            calls.append({'op': rng.choice(['eq', 'ne']), 't': t, 'xs': [ref(x)]})
        elif r < 0.45:
            b2 = bits if rng.random() < 0.6 else other
            calls.append({'op': rng.choice(['eq', 'ne']), 't': t, 'xs': [lit(lit_kind_for(rng, b2), b2)]})
        elif r < 0.55:
            calls.append({'op': 'eq_py', 't': t, 'sa': [rng.choice(['int', 'float', 'none', 'object', 'zero'])],
                          'ia': [rng.randint(0, 1)]})
        elif r < 0.6:
            calls.append({'op': 'hashable', 't': t})
        elif tc in ('Bits', 'ConstBitStream') and xc in ('Bits', 'ConstBitStream'):
            calls.append({'op': rng.choice(['hasheq', 'inset']), 't': t, 'xs': [ref(x)]})
        elif tc in ('Bits', 'ConstBitStream'):
            b2 = bits if rng.random() < 0.7 else other
            calls.append({'op': rng.choice(['hasheq', 'inset']), 't': t, 'xs': [lit(lit_kind_for(rng, b2), b2)]})
        else:
            calls.append({'op': 'hasheq', 't': t, 'xs': [ref(x)]})
    return {'calls': calls}
