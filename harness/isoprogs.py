"""Value isolation programs (C04) and call-history programs (C09)."""
from .enc import NONE_I, enc_int, enc_float
from . import drivers as _d
from .fmtprogs import tok, rand_format, read_tokens
from . import codecprogs

STR_KINDS = ['bin', 'hex', 'oct']


def pool_literals(rng):
    """a small pool of literal contents that the program keeps coming back to (string-cache keys)"""
    pool = []
    for _ in range(rng.randint(2, 4)):
        n = rng.choice([0, 1, 3, 4, 8, 8, 12, 16, 24])
        pool.append(_d.rand_bits(rng, n))
    return pool


def str_lit(rng, bits):
    kinds = ['bin']
    if bits and len(bits) % 4 == 0:
        kinds += ['hex', 'hex']
    if bits and len(bits) % 3 == 0:
        kinds.append('oct')
    return _d.lit(rng.choice(kinds), bits)


def derive_call(rng, src_id, src_cls, new_id, pool):
    """one call deriving a new object (rid=new_id) from src_id by some route; returns (call, class of result or None)"""
    r = rng.random()
    cls = rng.choice(_d.CLASSES)
    if r < 0.10:
        return {'op': 'mk', 'rid': new_id, 'sa': [cls, 'from_obj'], 'ia': [NONE_I], 'xs': [_d.ref(src_id)]}, cls
    if r < 0.20:
        return {'op': 'mk', 'rid': new_id, 'sa': [cls, 'bits_kw'], 'ia': [NONE_I], 'xs': [_d.ref(src_id)]}, cls
    if r < 0.28:
        return {'op': rng.choice(['copy_m', 'copy_c']), 't': src_id, 'rid': new_id}, src_cls
    if r < 0.36:
        return {'op': 'getslice', 't': src_id, 'rid': new_id,
                'ia': [rng.choice([NONE_I, 0, 1]), rng.choice([NONE_I, NONE_I, -1]), rng.choice([NONE_I, NONE_I, 1, 2, -1])]}, src_cls
    if r < 0.42:
        return {'op': 'getbits', 't': src_id, 'rid': new_id}, src_cls
    if r < 0.50:
        opn = rng.choice(['add', 'radd'])
        return {'op': opn, 't': src_id, 'rid': new_id, 'xs': [str_lit(rng, rng.choice(pool + [[]]))]}, src_cls
    if r < 0.56:
        return {'op': rng.choice(['and', 'or', 'xor']), 't': src_id, 'rid': new_id, 'xs': [_d.ref(src_id)]}, src_cls
    if r < 0.60:
        return {'op': 'mul', 't': src_id, 'rid': new_id, 'ia': [rng.choice([1, 1, 2])]}, src_cls
    if r < 0.65:
        return {'op': 'join', 't': src_id, 'rid': new_id, 'xs': [_d.ref(src_id), str_lit(rng, rng.choice(pool))]}, src_cls
    if r < 0.72:
        return {'op': 'packobj', 'rid': new_id, 'xs': [_d.ref(src_id)] + ([str_lit(rng, rng.choice(pool))] if rng.random() < 0.4 else []),
                'ia': [rng.randint(0, 255)] if rng.random() < 0.5 else []}, 'BitStream'
    if r < 0.77:
        return {'op': 'dtypebuild_bits', 'rid': new_id, 'xs': [_d.ref(src_id)]}, 'Bits'
    if r < 0.81:
        return {'op': 'dtypeparse_bits', 'rid': new_id, 'xs': [_d.ref(src_id)]}, 'Bits'
    if r < 0.86:
        return {'op': 'lshift', 't': src_id, 'rid': new_id, 'ia': [0]}, src_cls
    if r < 0.90:
        return {'op': 'inv', 't': src_id, 'rid': new_id}, src_cls
    if r < 0.95:
        return {'op': 'readbits' if src_cls in _d.STREAMS else 'getslice', 't': src_id, 'rid': new_id,
                'ia': [0] if src_cls in _d.STREAMS else [NONE_I, NONE_I, NONE_I]}, src_cls
    return {'op': 'cut', 't': src_id, 'rid': new_id, 'ia': [rng.choice([1, 4, 8, 100]), NONE_I, NONE_I, 2]}, src_cls


def string_route_call(rng, new_id, pool):
    bits = rng.choice(pool)
    cls = rng.choice(_d.CLASSES)
    route = rng.choice(['auto_bin', 'auto_hex', 'fromstring', 'auto_oct'])
    return _d.mk(new_id, cls, bits, route, NONE_I), cls


def isolation_program(rng, lsb0=False):
    """create objects, derive others from them by every route, mutate either side (or the buffer an object was
    built from / handed out), repeat; the trace validator re-reads every live object after each call."""
    pool = pool_literals(rng)
    calls = []
    if lsb0:
        calls.append(_d.setopt('lsb0', 1))
    live = []           # (id, class)
    nid = 0

    def fresh():
        nonlocal nid
        nid += 1
        return 'o%d' % nid

    for _ in range(rng.randint(2, 3)):
        c, cls = string_route_call(rng, fresh(), pool)
        calls.append(c)
        live.append((c['rid'], cls))
    # an object built from a user-held buffer
    if rng.random() < 0.6:
        kind = rng.choice(['bytearray', 'bitarray', 'array', 'memoryview'])
        bits = _d.rand_bits(rng, 8 * rng.randint(1, 3))
        calls.append({'op': 'mkext', 'rid': 'e1', 'sa': [kind], 'xs': [_d.lit('bin', bits)]})
        how = 'bitarray_kw' if kind == 'bitarray' and rng.random() < 0.5 else rng.choice(['auto', 'bytes_kw', 'bytes_off'] if kind != 'bitarray' else ['auto'])
        if kind in ('array',) and how != 'auto':
            how = 'auto'
        oid = fresh()
        cls = rng.choice(_d.CLASSES)
        calls.append({'op': 'mkfromext', 'rid': oid, 'sa': [cls, how, 'e1'], 'xs': [_d.lit('bin', bits)]})
        live.append((oid, cls))
    for step in range(rng.randint(6, 14)):
        r = rng.random()
        if r < 0.4 and live:
            sid, scls = rng.choice(live)
            c, cls = derive_call(rng, sid, scls, fresh(), pool)
            calls.append(c)
            if cls:
                live.append((c['rid'], cls))
        elif r < 0.5:
            c, cls = string_route_call(rng, fresh(), pool)
            calls.append(c)
            live.append((c['rid'], cls))
        elif r < 0.85:
            muts = [(i, c) for i, c in live if c in _d.MUTABLE]
            if muts:
                tid, tcls = rng.choice(muts)
                k = rng.random()
                if k < 0.08 and len(live) > 1:
                    # an empty mutable object takes another live object in by an in-place addition
                    nid_ = fresh()
                    ecls = rng.choice(_d.MUTABLE)
                    calls.append(_d.mk(nid_, ecls, [], 'bin', NONE_I))
                    calls.append({'op': rng.choice(['prepend', 'append', 'iadd']), 't': nid_, 'xs': [_d.ref(rng.choice(live)[0])]})
                    live.append((nid_, ecls))
                elif k < 0.25:
                    calls.append({'op': rng.choice(['prepend', 'append', 'iadd']), 't': tid, 'xs': [str_lit(rng, rng.choice(pool))]})
                elif k < 0.35 and len(live) > 1:
                    calls.append({'op': 'setbits', 't': tid, 'xs': [_d.ref(rng.choice(live)[0])]})
                elif k < 0.45:
                    calls.append({'op': 'invert', 't': tid, 'sa': ['none'], 'ia': []})
                elif k < 0.55:
                    calls.append({'op': 'set', 't': tid, 'sa': ['none'], 'ia': [rng.randint(0, 1)]})
                elif k < 0.6:
                    calls.append({'op': 'clear', 't': tid})
                else:
                    calls.append(_d.mutator_call(rng, rng.choice(pool), tcls, tid))
        elif r < 0.92 and live:
            sid, _ = rng.choice(live)
            calls.append({'op': 'tobitarray', 't': sid, 'rid': 'e2'})
            calls.append({'op': 'extmut', 'sa': ['e2'], 'ia': [rng.randint(0, 5)]})
        elif 'e1' in [c.get('rid') for c in calls]:
            calls.append({'op': 'extmut', 'sa': ['e1'], 'ia': [rng.randint(0, 5)]})
        # keep the world small
        if len(live) > 8:
            victim = live.pop(rng.randrange(len(live)))
            calls.append({'op': 'len', 't': live[0][0], 'drop': [victim[0]]})
    return {'calls': calls}


def derive_then_mutate_program(rng, lsb0=False):
    """Systematic variant: one source object; repeatedly derive an object from it by a random route and, when the
    result is mutable, change it in place at once - every event re-checks the source and every earlier result."""
    pool = pool_literals(rng)
    calls = []
    if lsb0:
        calls.append(_d.setopt('lsb0', 1))
    scls = rng.choice(['Bits', 'ConstBitStream', 'Bits', 'BitArray', 'BitStream'])
    bits = _d.rand_bits(rng, rng.choice([1, 4, 8, 8, 16, 24, 3]))
    calls.append(_d.mk('s', scls, bits, rng.choice(['bin', 'auto_bin', 'auto_hex', 'bools', 'bytes_len', 'slice']), NONE_I))
    for k in range(rng.randint(4, 8)):
        if rng.random() < 0.2:
            # an empty mutable object that takes the source in by an in-place addition
            cls = rng.choice(_d.MUTABLE)
            calls.append(_d.mk('d%d' % k, cls, [], 'bin', NONE_I))
            opn = rng.choice(['prepend', 'append', 'iadd', 'insert', 'overwrite'])
            c = {'op': opn, 't': 'd%d' % k, 'xs': [_d.ref('s')]}
            if opn in ('insert', 'overwrite'):
                c['ia'] = [0]
            calls.append(c)
        else:
            c, cls = derive_call(rng, 's', scls, 'd%d' % k, pool)      # (ids are never reused: a cut returns several objects)
            calls.append(c)
        if cls in _d.MUTABLE:
            t = c.get('rid') or c['t']
            calls.append(rng.choice([
                {'op': 'invert', 't': t, 'sa': ['none'], 'ia': []},
                {'op': 'set', 't': t, 'sa': ['none'], 'ia': [rng.randint(0, 1)]},
                {'op': 'append', 't': t, 'xs': [_d.lit('bin', [1, 0, 1])]},
                {'op': 'reverse', 't': t, 'ia': [NONE_I, NONE_I]},
                {'op': 'delslice', 't': t, 'ia': [NONE_I, 1, NONE_I]},
                {'op': 'setslice', 't': t, 'ia': [NONE_I, NONE_I, NONE_I], 'xs': [_d.lit('bin', [1])]},
                {'op': 'clear', 't': t},
            ]))
    return {'calls': calls}


# ---------------------------------------------------------------------------
# C09: call histories over more than 256 distinct cache keys, option changes in between, earlier results
# mutated or derived from; every call is judged by the (history-free) Step function of the specification.

def key_bits(i):
    """distinct literal content for key number i (10..19 bits so that hex/bin spellings differ too)"""
    n = 10 + (i % 10)
    return [(i * 2654435761 >> k) & 1 for k in range(n)]


def history_program(rng, length=420, nkeys=330):
    calls = []
    hot = list(range(12))
    live_mut = []
    lsb0 = 0
    mx = 0
    made = 0
    for step in range(length):
        r = rng.random()
        # Zipf-like reuse: hot keys, recent keys, and a steady stream of new ones (forces eviction of every cache)
        if rng.random() < 0.45:
            i = rng.choice(hot)
        elif rng.random() < 0.5:
            i = rng.randrange(nkeys)
        else:
            i = step % nkeys
        if r < 0.30:
            bits = key_bits(i)
            cls = rng.choice(_d.CLASSES)
            route = rng.choice(['auto_bin', 'auto_hex', 'fromstring', 'auto_bin'])
            rid = 'k%d' % (made % 6)
            made += 1
            calls.append(_d.mk(rid, cls, bits, route, NONE_I))
            if cls in _d.MUTABLE and route != 'x':
                live_mut.append((rid, cls))
                live_mut = live_mut[-4:]
        elif r < 0.45:
            # option dependent / independent token strings with embedded values
            name = rng.choice(['ue', 'se', 'uie', 'sie', 'uint', 'int', 'hex', 'bool'])
            if name in codecprogs.GOLOMB:
                toks = [tok(name, NONE_I, enc_int((i % 40) - (20 if name in ('se', 'sie') else 0)))]
            elif name == 'uint':
                toks = [tok('uint', 9 + i % 7, enc_int(i % 500))]
            elif name == 'int':
                toks = [tok('int', 10, enc_int((i % 500) - 250))]
            elif name == 'hex':
                toks = [tok('hex', 8, [4, i % 16, (i // 16) % 16])]
            else:
                toks = [tok('bool', NONE_I, [1, i % 2])]
            if rng.random() < 0.4:
                toks.append({'nm': 'lit', 'n': NONE_I, 'hv': 0, 'val': [8, 1, -1, 3, 1, 0, i % 2]})
            calls.append({'op': 'newfmt', 'rid': 'f', 'sa': [rng.choice(_d.CLASSES), rng.choice(['ctor', 'fromstring'])],
                          'tk': toks, 'ia': [64 if i % 2 else 0]})
        elif r < 0.62:
            # pack / unpack with format strings drawn from a large family (tokenparser, preprocess_tokens, ...)
            n1, n2 = 1 + i % 37, 1 + (i // 37) % 9
            toks = [tok('uint', n1), tok('int', n2 + 1)] + ([tok('hex', 4 * (1 + i % 3))] if i % 4 == 0 else [])
            vals = [enc_int((i * 7) % (1 << n1)), enc_int(-1)] + ([[4] + [i % 16] * (1 + i % 3)] if i % 4 == 0 else [])
            style = [0, 8, 64, 2, 16, 1, 9][(i + step) % 7]
            calls.append({'op': 'pack', 'rid': 'p', 'tk': toks, 'va': vals, 'ia': [style]})
            calls.append({'op': rng.choice(['unpack', 'unpack', 'readlist']), 't': 'p', 'tk': read_tokens(toks), 'ia': [style & ~5]})
            if style & 1:
                # the list-of-strings spelling: its first string is then used as a format on its own (and again)
                half = len(toks) // 2
                for _ in range(rng.randint(1, 2)):
                    calls.append({'op': 'pack', 'rid': 'p', 'tk': toks[:half], 'va': vals[:half], 'ia': [style & ~1]})
                calls.append({'op': 'unpack', 't': 'p', 'tk': read_tokens(toks[:half]), 'ia': [style & ~5]})
        elif r < 0.74:
            # Dtype creation through names (Dtype._new_from_token / _create caches)
            name = rng.choice(['uint', 'int', 'hex', 'bin', 'float'])
            n = {'uint': 1 + i % 290, 'int': 2 + i % 290, 'hex': 4 * (1 + i % 70), 'bin': i % 290, 'float': [16, 32, 64][i % 3]}[name]
            if name == 'uint':
                val = enc_int(1)
            elif name == 'int':
                val = enc_int(-1)
            elif name == 'hex':
                val = [4] + [i % 16] * (n // 4)
            elif name == 'bin':
                val = [6] + [i % 2] * n
            else:
                val = enc_float(1.5)
            calls.append({'op': 'newval', 'rid': 'd', 'sa': ['Bits', name, rng.choice(['dtype_build_name', 'dtype_build', 'token', 'kw_namelen']), str(i % 3)],
                          'ia': [n], 'va': [val]})
            calls.append({'op': 'interp', 't': 'd', 'sa': [name, rng.choice(['prop_len', 'dtype_parse', 'unpack']), str(i % 3)], 'ia': [n]})
        elif r < 0.84 and live_mut:
            tid, tcls = rng.choice(live_mut)
            calls.append(rng.choice([
                {'op': 'invert', 't': tid, 'sa': ['none'], 'ia': []},
                {'op': 'append', 't': tid, 'xs': [_d.lit('bin', key_bits(rng.choice(hot)))]},
                {'op': 'prepend', 't': tid, 'xs': [_d.lit('hex', key_bits(rng.choice(hot))[:8])]},
                {'op': 'clear', 't': tid},
                {'op': 'set', 't': tid, 'sa': ['none'], 'ia': [1]},
            ]))
        elif r < 0.92:
            which = rng.choice(['lsb0', 'mx', 'ba'])
            if which == 'lsb0':
                lsb0 = 1 - lsb0
                calls.append(_d.setopt('lsb0', lsb0))
            elif which == 'mx':
                mx = 1 - mx
                calls.append(_d.setopt('mx', mx))
            else:
                calls.append(_d.setopt('ba', rng.randint(0, 1)))
        elif r < 0.96:
            bits = key_bits(rng.choice(hot))
            calls.append({'op': rng.choice(['eq', 'contains', 'startswith']), 't': 'k0', 'xs': [_d.lit('bin', bits)], 'ia': [NONE_I, NONE_I]})
        else:
            # the key string as the LEFT operand of an operator (promoted through the same caches), on an object of
            # different content: must leave what the string means alone
            bits = key_bits(rng.choice(hot))
            other = [1 - b for b in bits]
            kind = 'hex' if bits and len(bits) % 4 == 0 and rng.random() < 0.5 else 'bin'
            calls.append(_d.mk('z', rng.choice(_d.CLASSES), other, 'bools', NONE_I))
            calls.append({'op': rng.choice(['rand', 'ror_', 'rxor', 'radd', 'and', 'xor', 'add']), 't': 'z', 'xs': [_d.lit(kind, bits)]})
    return {'calls': calls}


def long_literal_program(rng, lsb0=False):
    """one long string literal (whole bytes, >= 1024 bits: past any size gate of a fast path) used again and again -
    as the left operand of operators on shorter objects, as the first item of a join, as an auto / fromstring
    constructor argument - with in-place changes to the results in between; what the string means must not move."""
    n = rng.choice([1024, 1032, 1040, 2048, 2056, 4096])
    bits = _d.rand_bits(rng, n)
    kind = rng.choice(['hex', 'bin'])
    calls = [_d.setopt('lsb0', 1)] if lsb0 else []
    calls.append(_d.mk('z', rng.choice(_d.CLASSES), _d.rand_bits(rng, rng.choice([1, 6, 8, 16, 100, n])), 'bools', NONE_I))
    calls.append(_d.mk('sep', rng.choice(_d.CLASSES), _d.rand_bits(rng, rng.choice([1, 3, 8])), 'bools', NONE_I))
    k = 0
    for _ in range(rng.randint(4, 8)):
        k += 1
        rid = 'r%d' % k
        r = rng.random()
        if r < 0.35:
            calls.append({'op': 'radd', 't': 'z', 'rid': rid,
                          'xs': [_d.lit(kind, bits)]})
        elif r < 0.55:
            calls.append({'op': 'join', 't': 'sep', 'rid': rid, 'xs': [_d.lit(kind, bits), _d.lit('bin', _d.rand_bits(rng, rng.choice([1, 8, 9])))]})
        elif r < 0.8:
            cls = rng.choice(_d.CLASSES)
            calls.append(_d.mk(rid, cls, bits, 'auto_' + kind if rng.random() < 0.7 else 'fromstring', NONE_I))
            if cls in ('BitArray', 'BitStream') and rng.random() < 0.5:
                calls.append({'op': 'append', 't': rid, 'xs': [_d.lit('bin', [1, 0, 1])]})
        else:
            calls.append({'op': 'eq', 't': 'z', 'xs': [_d.lit(kind, bits)], 'ia': [NONE_I, NONE_I]})
    return {'calls': calls}
