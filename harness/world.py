"""Program runner: executes abstract programs (sequences of calls chosen by TLC
generators or by the Python drivers) against the real bitstring package and
records one event per call - arguments, outcome, and the projection of every
live object that changed - for validation by spec/Trace.tla.

A program is {"tid": int, "calls": [call, ...]}; a call is
  {"op": str, "t": target id or "", "ia": [ints], "sa": [strs], "va": [encoded values], "xs": [operands]}
Operands are {"k": "obj", "id": ...} or {"k": "lit", "kind": ..., "v": [bits]}.
"""
import copy as _copy
import io
import os
import sys

from . import enc
from .enc import NONE_I

_bs = None


def load_bitstring():
    """Import bitstring from $VERIF_REPO_ROOT (default /repo), fresh."""
    global _bs
    if _bs is None:
        root = os.environ.get('VERIF_REPO_ROOT', '/repo')
        if sys.path[0] != root:
            sys.path.insert(0, root)
        os.environ.setdefault('BITSTRING_VERIF', '1')
        import bitstring
        assert os.path.realpath(bitstring.__file__).startswith(os.path.realpath(root)), bitstring.__file__
        _bs = bitstring
    return _bs


def N(x):
    return None if x == NONE_I else x


OPS = {}


def op(name, hint=None):
    def deco(fn):
        OPS[name] = (fn, hint)
        return fn
    return deco


def clear_caches(bs):
    import functools
    for modname in ('bitstring.bitstore_helpers', 'bitstring.utils', 'bitstring.dtypes'):
        mod = sys.modules.get(modname)
        if mod is None:
            continue
        for v in vars(mod).values():
            if hasattr(v, 'cache_clear'):
                v.cache_clear()
    for nm in ('_new_from_token', '_create'):
        f = getattr(bs.Dtype, nm, None)
        if f is not None and hasattr(f, 'cache_clear'):
            f.cache_clear()


class World:
    def __init__(self, tmpdir=None):
        self.bs = load_bitstring()
        self.objs = {}
        self.last = {}
        self.ext = {}        # user-held external buffers (bytearray, bitarray, ...)
        self.tmpdir = tmpdir
        self.arrays = {}

    # ---- options -------------------------------------------------------
    def reset_options(self):
        o = self.bs.options
        o.lsb0 = False
        o.bytealigned = False
        o.mxfp_overflow = 'saturate'

    def opts(self):
        o = self.bs.options
        return {'lsb0': bool(o.lsb0), 'ba': bool(o.bytealigned), 'mx': str(o.mxfp_overflow)}

    # ---- operands ------------------------------------------------------
    def cls(self, name):
        return getattr(self.bs, name)

    def make_lit(self, kind, bits):
        s = enc.str_of_bits(bits)
        if kind == 'bin':
            return '0b' + s if s else ''
        if kind == 'hex':
            if len(s) % 4 or not s:
                return '0b' + s if s else ''
            return '0x' + '%0*x' % (len(s) // 4, int(s, 2))
        if kind == 'oct':
            if len(s) % 3 or not s:
                return '0b' + s if s else ''
            return '0o' + '%0*o' % (len(s) // 3, int(s, 2))
        if kind == 'bytes':
            assert len(s) % 8 == 0
            return int(s, 2).to_bytes(len(s) // 8, 'big') if s else b''
        if kind == 'bytearray':
            assert len(s) % 8 == 0
            return bytearray(int(s, 2).to_bytes(len(s) // 8, 'big') if s else b'')
        if kind == 'bools':
            return [bool(b) for b in bits]
        if kind == 'tuple':
            return tuple(bool(b) for b in bits)
        if kind == 'ints':
            return [int(b) for b in bits]
        if kind == 'bitarray':
            import bitarray
            return bitarray.bitarray(s)
        if kind in ('gen_truthy', 'map_truthy'):
            # a one-shot iterator of arbitrary truthy / falsy items (the documented meaning: bool(item) per item)
            t, f = [2, 'x', 3.5, [0], True, -1, (None,)], [0, None, '', 0.0, [], False, ()]
            items = [(t if b else f)[(i + len(bits)) % 7] for i, b in enumerate(bits)]
            return (x for x in items) if kind == 'gen_truthy' else map(lambda x: x, items)
        if kind == 'bitarray_le':
            # the same sequence of bits held by a little-endian bitarray (its bytes differ, its bits do not)
            import bitarray
            return bitarray.bitarray(s, endian='little')
        if kind in enc.CLS_CODE:
            return self.cls(kind)(bin=s)
        raise ValueError('unknown literal kind ' + kind)

    def operand(self, x):
        if x['k'] == 'obj':
            return self.objs[x['id']]
        return self.make_lit(x['kind'], x['v'])

    def describe_operand(self, x):
        if x['k'] == 'obj':
            o = self.objs[x['id']]
            p = enc.project(o)
            return {'k': 'obj', 'id': x['id'], 'kind': p['c'], 'v': p['v']}
        kind = {'bitarray_le': 'bitarray', 'gen_truthy': 'bools', 'map_truthy': 'bools'}.get(x['kind'], x['kind'])
        return {'k': 'lit', 'id': '', 'kind': kind, 'v': list(x['v'])}

    # ---- projection ----------------------------------------------------
    def proj(self, o):
        try:
            return enc.project(o)
        except Exception as e:   # object no longer printable: report as broken
            r = {'c': type(o).__name__, 'v': [], 'p': -1, 'n': -7}
            if r['c'] == 'Array':
                r.update(dn='uint', dl=1)
            return r

    def diff_post(self):
        post = {}
        for k, o in self.objs.items():
            p = self.proj(o)
            if self.last.get(k) != p:
                post[k] = p
                self.last[k] = p
        return post

    # ---- running -------------------------------------------------------
    def run_program(self, prog):
        bs = self.bs
        self.objs, self.last, self.ext, self.arrays = {}, {}, {}, {}
        self.reset_options()
        if not prog.get('keep_caches'):
            clear_caches(bs)
        events = []
        try:
            for seq, call in enumerate(prog['calls']):
                ev = self.run_call(prog['tid'], seq, call)
                if ev is not None:
                    events.append(ev)
        finally:
            self.reset_options()
        return events

    def run_call(self, tid, seq, call):
        opname = call['op']
        fn, hint = OPS[opname]
        call = dict(call)
        call.setdefault('t', '')
        call.setdefault('ia', [])
        call.setdefault('sa', [])
        call.setdefault('va', [])
        call.setdefault('xs', [])
        call.setdefault('tk', [])
        # a call whose target or operand was never created (an earlier creating call was refused
        # by the library) is not executed at all
        if call['t'] and call['t'] not in self.objs:
            return None
        for x in call['xs']:
            if x['k'] == 'obj' and x['id'] not in self.objs:
                return None
        drop = list(call.get('drop', []))
        if call.get('rid') in self.objs and call['rid'] not in drop:
            drop.append(call['rid'])
        if '*' in drop:
            drop = list(self.objs.keys())
        elif 'r*' in drop:
            # everything returned by earlier calls (ids r<seq>_<k>), keeping the named objects
            drop = [k for k in self.objs if k.startswith('r') and k[1:2].isdigit()]
        for d in drop:
            self.objs.pop(d, None)
            self.last.pop(d, None)
        ev = {'tid': tid, 'seq': seq, 'op': opname, 't': call['t'], 'drop': drop, 'ia': list(call['ia']),
              'raw': json_safe(call.get('raw', [])),
              'sa': list(call['sa']), 'va': [list(v) for v in call['va']],
              'xs': [self.describe_operand(x) for x in call['xs']],
              'tk': [{'nm': t['nm'], 'n': t['n'], 'hv': t['hv'], 'val': list(t['val'])} for t in call['tk']],
              'opts': self.opts()}
        out = {'k': 'ok', 'exc': [], 'ename': '', 'vals': [], 'ids': [], 'alias': []}
        import signal

        def _too_long(signum, frame):
            raise enc.Unloggable('call took longer than 20 s')
        try:
            old_handler = signal.signal(signal.SIGALRM, _too_long)
            signal.alarm(20)
        except ValueError:
            old_handler = None
        try:
            try:
                ret = fn(self, call)
            finally:
                if old_handler is not None:
                    signal.alarm(0)
                    signal.signal(signal.SIGALRM, old_handler)
        except enc.Unloggable:
            raise
        except MemoryError:
            raise enc.Unloggable('MemoryError under the harness memory limit')
        except Exception as e:  # noqa - every failure of the library is an observation
            out['k'] = 'raise'
            out['exc'] = enc.exc_categories(e)
            out['ename'] = type(e).__name__
            out['emsg'] = str(e)[:200]
        else:
            rets = ret if isinstance(ret, Multi) else Multi([ret])
            for k, r in enumerate(rets.items):
                h = rets.hints[k] if rets.hints else hint
                if isinstance(r, (self.bs.Bits, self.bs.Array)) and len(getattr(r, 'data', r)) > 200000:
                    # too large to project (adversarial repeat counts): not tracked, not encoded
                    if call['op'] != 'rawcall':
                        raise enc.Unloggable('result larger than 200000 bits')
                    out['ids'].append('')
                    out['alias'].append('')
                    out['vals'].append([13])
                elif isinstance(r, (self.bs.Bits, self.bs.Array)):
                    alias = ''
                    for oid, o in self.objs.items():
                        if o is r:
                            alias = oid
                            break
                    if alias:
                        out['ids'].append(alias)
                        out['alias'].append(alias)
                        out['vals'].append(enc.enc_obj(r))
                    else:
                        nid = call.get('rid') or f'r{seq}_{k}'
                        if k > 0 and call.get('rid'):
                            nid = f"{call['rid']}_{k}"
                        self.objs[nid] = r
                        out['ids'].append(nid)
                        out['alias'].append('')
                        out['vals'].append(enc.enc_obj(r))
                else:
                    out['ids'].append('')
                    out['alias'].append('')
                    out['vals'].append(enc.enc_value(r, h))
        # values an op computed with Python's own arithmetic as *inputs* to the specification (oracle inputs)
        ev['va'].extend(call.pop('_oracle', []))
        ev['out'] = out
        ev['post'] = self.diff_post()
        ev['optsp'] = self.opts()
        # an object that has grown beyond what TLC can judge in reasonable time ends the program (skipped and counted;
        # sizes of this order are exercised on purpose only with calls whose specification is linear in the size)
        if call['op'] != 'rawcall' and any(r.get('n', 0) > 120000 for r in ev['post'].values()):
            raise enc.Unloggable('an object grew beyond 120000 bits')
        return ev


def json_safe(x):
    return [[str(a)[:60]] for a in x]


class Multi:
    """Several returned values (generator results, lists) with optional per-item hints."""
    def __init__(self, items, hints=None):
        self.items = list(items)
        self.hints = hints


def T(w, c):
    return w.objs[c['t']]


# ---------------------------------------------------------------------------
# construction

@op('mk')
def _mk(w, c):
    """Create an object of class sa[0] with the bits xs[0] by route sa[1]; ia[0] = pos or NONE."""
    clsname, route = c['sa'][0], c['sa'][1]
    bits = c['xs'][0]['v'] if c['xs'][0]['k'] == 'lit' else enc.project(w.objs[c['xs'][0]['id']])['v']
    pos = N(c['ia'][0]) if c['ia'] else None
    kw = {}
    if pos is not None:
        kw['pos'] = pos
    cls = w.cls(clsname)
    s = enc.str_of_bits(bits)
    n = len(bits)
    if route == 'bin':
        return cls(bin=s, **kw)
    if route == 'auto_bin':
        return cls('0b' + s if s else '', **kw)
    if route == 'auto_hex':
        return cls(w.make_lit('hex', bits), **kw)
    if route == 'auto_oct':
        return cls(w.make_lit('oct', bits), **kw)
    if route == 'bools':
        return cls([bool(b) for b in bits], **kw)
    if route == 'bitarray':
        return cls(w.make_lit('bitarray', bits), **kw)
    if route == 'bitarray_kw':
        return cls(bitarray=w.make_lit('bitarray', bits), **kw)
    if route in ('gen_truthy', 'map_truthy'):
        return cls(w.make_lit(route, bits), **kw)
    if route == 'bitarray_le':
        return cls(w.make_lit('bitarray_le', bits), **kw)
    if route == 'bitarray_le_kw':
        return cls(bitarray=w.make_lit('bitarray_le', bits), **kw)
    if route == 'bytes_len':
        pad = bits + [0] * ((8 - n % 8) % 8)
        return cls(bytes=w.make_lit('bytes', pad), length=n, **kw)
    if route == 'bytes_off':
        # 3 junk bits in front, junk bits behind
        pre = [1, 0, 1]
        tot = pre + bits + [1]
        tot = tot + [1] * ((8 - len(tot) % 8) % 8)
        return cls(bytes=w.make_lit('bytes', tot), length=n, offset=3, **kw)
    if route == 'slice':
        big = cls(bin='101' + s + '01')
        # the same stored window in either bit-numbering mode
        r = big[2:2 + n] if w.bs.options.lsb0 else big[3:3 + n]
        if pos is not None:
            r.pos = pos
        return r
    if route == 'obj':
        return cls(w.cls('Bits')(bin=s), **kw)
    if route == 'bits_kw':
        return cls(bits=w.objs[c['xs'][0]['id']], **kw)
    if route == 'from_obj':
        # construct from the (tracked) object given as the operand
        return cls(w.objs[c['xs'][0]['id']], **kw)
    if route == 'uint':
        if n == 0:
            return cls(**kw)
        return cls(uint=int(s, 2), length=n, **kw)
    if route == 'fromstring':
        r = cls.fromstring('0b' + s if s else '')
        if pos is not None:
            r.pos = pos
        return r
    if route in ('file', 'file_len', 'file_off', 'filehandle'):
        return _mk_file(w, cls, route, bits, kw)
    raise ValueError('unknown route ' + route)


def _mk_file(w, cls, route, bits, kw):
    n = len(bits)
    assert w.tmpdir
    w._filecount = getattr(w, '_filecount', 0) + 1
    fn = os.path.join(w.tmpdir, f'f{os.getpid()}_{w._filecount}.bin')
    if route == 'file':
        assert n % 8 == 0 and n > 0
        data = w.make_lit('bytes', bits)
        open(fn, 'wb').write(data)
        return cls(filename=fn, **kw)
    if route == 'filehandle':
        assert n % 8 == 0 and n > 0
        open(fn, 'wb').write(w.make_lit('bytes', bits))
        with open(fn, 'rb') as f:
            return cls(f, **kw)
    if route == 'file_len':
        tot = bits + [1, 1, 0, 1]
        tot = tot + [1] * ((8 - len(tot) % 8) % 8)
        open(fn, 'wb').write(w.make_lit('bytes', tot))
        return cls(filename=fn, length=n, **kw)
    if route == 'file_off':
        pre = [1, 1, 0, 1, 0]
        tot = pre + bits + [0, 1]
        tot = tot + [1] * ((8 - len(tot) % 8) % 8)
        open(fn, 'wb').write(w.make_lit('bytes', tot))
        return cls(filename=fn, offset=5, length=n, **kw)


# ---------------------------------------------------------------------------
# sequence behaviour (C01)

@op('len', 'small')
def _len(w, c):
    return len(T(w, c))


@op('lenprop', 'small')
def _lenprop(w, c):
    return T(w, c).len if not c['sa'] else getattr(T(w, c), c['sa'][0])


@op('bool')
def _bool(w, c):
    return bool(T(w, c))


@op('iter')
def _iter(w, c):
    r = list(iter(T(w, c)))
    if not all(isinstance(e, bool) for e in r):
        return enc.OPAQUE
    return r


@op('getitem')
def _getitem(w, c):
    return T(w, c)[c['ia'][0]]


@op('getslice')
def _getslice(w, c):
    a, b, st = (N(x) for x in c['ia'][:3])
    return T(w, c)[a:b:st]


@op('add')
def _add(w, c):
    return T(w, c) + w.operand(c['xs'][0])


@op('radd')
def _radd(w, c):
    return w.operand(c['xs'][0]) + T(w, c)


@op('mul')
def _mul(w, c):
    return T(w, c) * c['ia'][0]


@op('rmul')
def _rmul(w, c):
    return c['ia'][0] * T(w, c)


# ---------------------------------------------------------------------------
# bit-wise operators (C16)

@op('inv')
def _inv(w, c):
    return ~T(w, c)


@op('and')
def _and(w, c):
    return T(w, c) & w.operand(c['xs'][0])


@op('or')
def _or(w, c):
    return T(w, c) | w.operand(c['xs'][0])


@op('xor')
def _xor(w, c):
    return T(w, c) ^ w.operand(c['xs'][0])


@op('rand')
def _rand(w, c):
    return w.operand(c['xs'][0]) & T(w, c)


@op('ror_')
def _ror_(w, c):
    return w.operand(c['xs'][0]) | T(w, c)


@op('rxor')
def _rxor(w, c):
    return w.operand(c['xs'][0]) ^ T(w, c)


@op('lshift')
def _lshift(w, c):
    return T(w, c) << c['ia'][0]


@op('rshift')
def _rshift(w, c):
    return T(w, c) >> c['ia'][0]


# ---------------------------------------------------------------------------
# mutators (C03).  In-place operators return the (possibly rebound) object.

def _inplace(w, c, f):
    t = T(w, c)
    r = f(t)
    return r


@op('iadd')
def _iadd(w, c):
    t = T(w, c)
    x = w.operand(c['xs'][0])
    t += x
    return t


@op('imul')
def _imul(w, c):
    t = T(w, c)
    t *= c['ia'][0]
    return t


@op('ilshift')
def _ilshift(w, c):
    t = T(w, c)
    t <<= c['ia'][0]
    return t


@op('irshift')
def _irshift(w, c):
    t = T(w, c)
    t >>= c['ia'][0]
    return t


@op('iand')
def _iand(w, c):
    t = T(w, c)
    t &= w.operand(c['xs'][0])
    return t


@op('ior')
def _ior(w, c):
    t = T(w, c)
    t |= w.operand(c['xs'][0])
    return t


@op('ixor')
def _ixor(w, c):
    t = T(w, c)
    t ^= w.operand(c['xs'][0])
    return t


@op('append')
def _append(w, c):
    return T(w, c).append(w.operand(c['xs'][0]))


@op('prepend')
def _prepend(w, c):
    return T(w, c).prepend(w.operand(c['xs'][0]))


@op('insert')
def _insert(w, c):
    p = N(c['ia'][0])
    if p is None:
        return T(w, c).insert(w.operand(c['xs'][0]))
    if c['sa'] and c['sa'][0] == 'kw':
        return T(w, c).insert(w.operand(c['xs'][0]), pos=p)
    return T(w, c).insert(w.operand(c['xs'][0]), p)


@op('overwrite')
def _overwrite(w, c):
    p = N(c['ia'][0])
    if p is None:
        return T(w, c).overwrite(w.operand(c['xs'][0]))
    return T(w, c).overwrite(w.operand(c['xs'][0]), p)


@op('delitem')
def _delitem(w, c):
    del T(w, c)[c['ia'][0]]


@op('delslice')
def _delslice(w, c):
    a, b, st = (N(x) for x in c['ia'][:3])
    del T(w, c)[a:b:st]


@op('setitem')
def _setitem(w, c):
    t = T(w, c)
    if c['xs']:
        t[c['ia'][0]] = w.operand(c['xs'][0])
    else:
        t[c['ia'][0]] = enc.dec_int(c['va'][0])


@op('setslice')
def _setslice(w, c):
    t = T(w, c)
    a, b, st = (N(x) for x in c['ia'][:3])
    if c['xs']:
        t[a:b:st] = w.operand(c['xs'][0])
    else:
        t[a:b:st] = enc.dec_int(c['va'][0])


@op('replace', 'small')
def _replace(w, c):
    a, b, cnt, ba = (N(x) for x in c['ia'][:4])
    kw = {}
    if ba is not None:
        kw['bytealigned'] = bool(ba)
    old, new = w.operand(c['xs'][0]), w.operand(c['xs'][1])
    return T(w, c).replace(old, new, a, b, cnt, **kw)


@op('reverse')
def _reverse(w, c):
    a, b = (N(x) for x in c['ia'][:2])
    return T(w, c).reverse(a, b)


@op('rol')
def _rol(w, c):
    n, a, b = (N(x) for x in c['ia'][:3])
    return T(w, c).rol(n, a, b)


@op('ror')
def _ror(w, c):
    n, a, b = (N(x) for x in c['ia'][:3])
    return T(w, c).ror(n, a, b)


def _posarg(c):
    """Positions argument for set/invert/all/any: sa[0] in none|int|list|tuple|range|iter."""
    kind = c['sa'][0]
    ia = c['ia'][1:] if c['op'] in ('set', 'all', 'any') else c['ia']
    if kind == 'none':
        return None
    if kind == 'int':
        return ia[0]
    if kind == 'list':
        return list(ia)
    if kind == 'tuple':
        return tuple(ia)
    if kind == 'range':
        return range(ia[0], ia[1], ia[2])
    if kind == 'iter':
        return iter(list(ia))
    raise ValueError(kind)


@op('set')
def _set(w, c):
    v = c['ia'][0]
    p = _posarg(c)
    if p is None:
        return T(w, c).set(v)
    return T(w, c).set(v, p)


@op('invert')
def _invert(w, c):
    p = _posarg(c)
    if p is None:
        return T(w, c).invert()
    return T(w, c).invert(p)


@op('byteswap', 'small')
def _byteswap(w, c):
    """sa[0] = fmt kind: none|int|list|str ; sa[1] = str fmt ; ia = [a, b, repeat(0/1/NONE), sizes...]"""
    a, b, rep = N(c['ia'][0]), N(c['ia'][1]), N(c['ia'][2])
    sizes = c['ia'][3:]
    kind = c['sa'][0]
    if kind == 'none':
        fmt = None
    elif kind == 'int':
        fmt = sizes[0]
    elif kind == 'list':
        fmt = list(sizes)
    elif kind == 'str':
        fmt = c['sa'][1]
    kw = {}
    if rep is not None:
        kw['repeat'] = bool(rep)
    return T(w, c).byteswap(fmt, a, b, **kw)


@op('clear')
def _clear(w, c):
    return T(w, c).clear()


# ---------------------------------------------------------------------------
# copies, comparison (C04, C13)

@op('copy_m')
def _copy_m(w, c):
    return T(w, c).copy()


@op('copy_c')
def _copy_c(w, c):
    return _copy.copy(T(w, c))


@op('eq')
def _eq(w, c):
    r = T(w, c) == w.operand(c['xs'][0])
    return r if isinstance(r, bool) else enc.OPAQUE


@op('ne')
def _ne(w, c):
    r = T(w, c) != w.operand(c['xs'][0])
    return r if isinstance(r, bool) else enc.OPAQUE


@op('eq_py')
def _eq_py(w, c):
    """== / != against a non-promotable Python value: sa[0] in int|float|none|object ; ia[0]: 0 eq, 1 ne"""
    k = c['sa'][0]
    v = {'int': 5, 'float': 1.5, 'none': None, 'object': object(), 'zero': 0, 'dict': {}}[k]
    t = T(w, c)
    r = (t != v) if c['ia'][0] else (t == v)
    return r if isinstance(r, bool) else enc.OPAQUE


def _hashable_operand(w, c):
    """The operand as a hashable bitstring: Bits / ConstBitStream objects as they are, anything else
    promoted through the constructor of one of the two immutable classes (so equal values reach the
    comparison by many construction routes)."""
    x = w.operand(c['xs'][0])
    if isinstance(x, w.bs.Bits) and not isinstance(x, w.bs.BitArray):
        return x
    cls = w.bs.ConstBitStream if (len(c['xs'][0].get('v', [])) + len(c['xs'][0].get('kind', ''))) % 2 else w.bs.Bits
    return cls(x)


@op('hasheq')
def _hasheq(w, c):
    """hash(t) == hash(x) ? (x an object operand)"""
    return hash(T(w, c)) == hash(_hashable_operand(w, c))


@op('hashable')
def _hashable(w, c):
    try:
        hash(T(w, c))
        return True
    except TypeError:
        return False


@op('inset')
def _inset(w, c):
    """x in {t} and {t: 1}[x] for object operand x"""
    t, x = T(w, c), _hashable_operand(w, c)
    return (x in {t}) and ({t: 1}.get(x) == 1)


# ---------------------------------------------------------------------------
# options

@op('setopt')
def _setopt(w, c):
    name = c['sa'][0]
    o = w.bs.options
    how = c['sa'][1] if len(c['sa']) > 1 else 'options'
    if name == 'lsb0':
        if how == 'module':
            w.bs.lsb0 = bool(c['ia'][0])
        else:
            o.lsb0 = bool(c['ia'][0])
    elif name == 'ba':
        if how == 'module':
            w.bs.bytealigned = bool(c['ia'][0])
        else:
            o.bytealigned = bool(c['ia'][0])
    elif name == 'mx':
        o.mxfp_overflow = 'overflow' if c['ia'][0] else 'saturate'
    return None


# ---------------------------------------------------------------------------
# stream position (C06)

@op('getpos', 'small')
def _getpos(w, c):
    return getattr(T(w, c), c['sa'][0] if c['sa'] else 'pos')


@op('setpos')
def _setpos(w, c):
    setattr(T(w, c), c['sa'][0] if c['sa'] else 'pos', c['ia'][0])


@op('bytealign', 'small')
def _bytealign(w, c):
    return T(w, c).bytealign()


@op('readbits')
def _readbits(w, c):
    return T(w, c).read(c['ia'][0])


@op('peekbits')
def _peekbits(w, c):
    return T(w, c).peek(c['ia'][0])


@op('readlistbits')
def _readlistbits(w, c):
    r = T(w, c).readlist(list(c['ia']))
    return Multi(r)


@op('peeklistbits')
def _peeklistbits(w, c):
    r = T(w, c).peeklist(list(c['ia']))
    return Multi(r)


@op('readto')
def _readto(w, c):
    ba = N(c['ia'][0]) if c['ia'] else None
    kw = {} if ba is None else {'bytealigned': bool(ba)}
    return T(w, c).readto(w.operand(c['xs'][0]), **kw)


# ---------------------------------------------------------------------------
# search (C07)

def _bakw(v):
    return {} if v is None else {'bytealigned': bool(v)}


@op('find', 'small')
def _find(w, c):
    a, b, ba = (N(x) for x in c['ia'][:3])
    r = T(w, c).find(w.operand(c['xs'][0]), a, b, **_bakw(ba))
    if not isinstance(r, tuple):
        return enc.OPAQUE
    return r


@op('rfind', 'small')
def _rfind(w, c):
    a, b, ba = (N(x) for x in c['ia'][:3])
    r = T(w, c).rfind(w.operand(c['xs'][0]), a, b, **_bakw(ba))
    if not isinstance(r, tuple):
        return enc.OPAQUE
    return r


@op('findall', 'small')
def _findall(w, c):
    a, b, cnt, ba = (N(x) for x in c['ia'][:4])
    return list(T(w, c).findall(w.operand(c['xs'][0]), a, b, cnt, **_bakw(ba)))


@op('contains')
def _contains(w, c):
    return w.operand(c['xs'][0]) in T(w, c)


@op('startswith')
def _startswith(w, c):
    a, b = (N(x) for x in c['ia'][:2])
    return T(w, c).startswith(w.operand(c['xs'][0]), a, b)


@op('endswith')
def _endswith(w, c):
    a, b = (N(x) for x in c['ia'][:2])
    return T(w, c).endswith(w.operand(c['xs'][0]), a, b)


@op('count', 'small')
def _count(w, c):
    return T(w, c).count(c['ia'][0])


@op('cut')
def _cut(w, c):
    bits, a, b, cnt = (N(x) for x in c['ia'][:4])
    return Multi(list(T(w, c).cut(bits, a, b, cnt)))


@op('split')
def _split(w, c):
    a, b, cnt, ba = (N(x) for x in c['ia'][:4])
    return Multi(list(T(w, c).split(w.operand(c['xs'][0]), a, b, cnt, **_bakw(ba))))


@op('all')
def _all(w, c):
    p = _posarg(c)
    return T(w, c).all(c['ia'][0]) if p is None else T(w, c).all(c['ia'][0], p)


@op('any')
def _any(w, c):
    p = _posarg(c)
    return T(w, c).any(c['ia'][0]) if p is None else T(w, c).any(c['ia'][0], p)


@op('join')
def _join(w, c):
    return T(w, c).join([w.operand(x) for x in c['xs']])


@op('tobytes')
def _tobytes(w, c):
    how = c['sa'][0] if c['sa'] else 'tobytes'
    t = T(w, c)
    if how == 'bytes()':
        return bytes(t)
    if how == 'prop':
        return t.bytes
    return t.tobytes()


# ---------------------------------------------------------------------------
# value <-> bits (C02, C10, C15): building from values, interpreting, token reads

def pyval(w, val):
    """Encoded value -> the Python value handed to the library."""
    tag = val[0]
    if tag == 0:
        return None
    if tag == 1:
        return bool(val[1])
    if tag == 2:
        return enc.dec_int(val)
    if tag == 3:
        return enc.dec_float(val)
    if tag == 4:
        return ''.join('%x' % d for d in val[1:])
    if tag == 5:
        return ''.join('%o' % d for d in val[1:])
    if tag == 6:
        return ''.join('%d' % d for d in val[1:])
    if tag == 7:
        return bytes(val[1:])
    if tag == 8:
        return w.cls(enc.CODE_CLS[val[1]])(bin=enc.str_of_bits(val[4:]))
    if tag == 9:
        return val[1]
    raise enc.Unloggable('value tag %r' % tag)


def valtext(val):
    """Text of a value inside a token string ('uint:8=VALUE')."""
    tag = val[0]
    if tag == 1:
        return 'True' if val[1] else 'False'
    if tag == 2:
        return str(enc.dec_int(val))
    if tag == 3:
        return repr(enc.dec_float(val))
    if tag in (4, 5, 6):
        return ''.join('%x' % d for d in val[1:])
    raise enc.Unloggable('no token text for tag %r' % tag)


def tokname(name, n, style=0):
    """Spelling of a dtype with its length: uint:8 / uint8 / 'uint : 8' ..."""
    if n is None:
        return name
    if style % 3 == 0:
        return f'{name}:{n}'
    if style % 3 == 1:
        return f'{name}{n}'
    return f' {name} : {n} '


def _hint_for(name):
    return {'hex': 'hex', 'h': 'hex', 'oct': 'oct', 'o': 'oct', 'bin': 'bin', 'b': 'bin'}.get(name)


@op('newval')
def _newval(w, c):
    clsname, name, route = c['sa'][0], c['sa'][1], c['sa'][2]
    style = int(c['sa'][3]) if len(c['sa']) > 3 else 0
    n = N(c['ia'][0])
    val = c['va'][0]
    v = pyval(w, val)
    cls = w.cls(clsname)
    bs = w.bs
    if route == 'kw_len':
        return cls(**{name: v}) if n is None else cls(**{name: v}, length=n)
    if route == 'kw_namelen':
        return cls(**{f'{name}{n}': v})
    if route == 'token':
        return cls(f'{tokname(name, n, style)}={valtext(val)}')
    if route == 'fromstring':
        return cls.fromstring(f'{tokname(name, n, style)}={valtext(val)}')
    if route == 'dtype_build':
        return bs.Dtype(name, n).build(v)
    if route == 'dtype_build_name':
        return bs.Dtype(tokname(name, n, style).strip()).build(v)
    if route == 'pack':
        return bs.pack(tokname(name, n, style), v)
    if route == 'pack_kw':
        return bs.pack(f'{name}:nn', v, nn=n)
    if route == 'pack_val':
        return bs.pack(f'{tokname(name, n, style)}={valtext(val)}')
    if route == 'prop':
        x = cls()
        setattr(x, name if n is None else f'{name}{n}', v)
        return x
    if route == 'prop_sized':
        # an existing object of the right size, assigned through the length-less property
        x = cls(n * (8 if name == 'bytes' else 1))
        setattr(x, name, v)
        return x
    raise ValueError('unknown route ' + route)


@op('setprop')
def _setprop(w, c):
    name = c['sa'][0]
    n = N(c['ia'][0])
    v = pyval(w, c['va'][0])
    setattr(T(w, c), name if n is None else f'{name}{n}', v)


def _interp_hint(name):
    return _hint_for(name)


@op('interp')
def _interp(w, c):
    name, route = c['sa'][0], c['sa'][1]
    style = int(c['sa'][2]) if len(c['sa']) > 2 else 0
    n = N(c['ia'][0])
    t = T(w, c)
    bs = w.bs
    if route == 'prop':
        r = getattr(t, name)
    elif route == 'prop_len':
        r = getattr(t, f'{name}{n}')
    elif route == 'dtype_parse':
        r = bs.Dtype(name, n).parse(t)
    elif route == 'unpack':
        r = t.unpack(tokname(name, n, style))
        if not isinstance(r, list) or len(r) != 1:
            return enc.OPAQUE
        r = r[0]
    elif route == 'unpack_kw':
        r = t.unpack(f'{name}:nn', nn=n)
        if not isinstance(r, list) or len(r) != 1:
            return enc.OPAQUE
        r = r[0]
    elif route == 'read':
        s = bs.ConstBitStream(t)
        r = s.read(tokname(name, n, style))
        if s.pos != len(s):
            return enc.OPAQUE
    else:
        raise ValueError('unknown route ' + route)
    return Multi([r], [_hint_for(name)])


@op('readtok')
def _readtok(w, c):
    name = c['sa'][0]
    style = int(c['sa'][1]) if len(c['sa']) > 1 else 0
    n = N(c['ia'][0])
    r = T(w, c).read(tokname(name, n, style))
    return Multi([r], [_hint_for(name)])


@op('peektok')
def _peektok(w, c):
    name = c['sa'][0]
    style = int(c['sa'][1]) if len(c['sa']) > 1 else 0
    n = N(c['ia'][0])
    r = T(w, c).peek(tokname(name, n, style))
    return Multi([r], [_hint_for(name)])


# ---------------------------------------------------------------------------
# format strings (C05, C18): the call carries the flat token list `tk`; the renderer below picks a
# spelling (list of strings, multipliers, brackets, keyword lengths, whitespace, 'namen') from `style`.

def _tok_text(w, tk, style, kwargs, idx):
    if tk['nm'] == 'lit':
        bits = tk['val'][4:]
        s = enc.str_of_bits(bits)
        if style & 32 and len(bits) % 4 == 0 and bits:
            return '0x' + '%0*x' % (len(bits) // 4, int(s, 2))
        return '0b' + s
    name, n = tk['nm'], N(tk['n'])
    if n is None:
        t = name
    elif style & 8 and n >= 0:
        key = f'k{idx}'
        kwargs[key] = n
        t = f'{name}:{key}'
    elif style & 64 and n >= 0 and not name[-1].isdigit():
        t = f'{name}{n}'
    else:
        t = f'{name}:{n}'
    if tk['hv']:
        t += '=' + valtext(tk['val'])
    if style & 16:
        t = ' ' + t.replace(':', ' : ') + '  '
    return t


def render_format(w, toks, style):
    """-> (fmt argument, kwargs).  Meaning-preserving syntax variations only."""
    kwargs = {}
    texts = [_tok_text(w, tk, style, kwargs, i) for i, tk in enumerate(toks)]
    # fold runs of identical tokens into k*tok
    if style & 2:
        folded = []
        i = 0
        while i < len(texts):
            j = i
            while j + 1 < len(texts) and texts[j + 1] == texts[i] and '=' not in texts[i]:
                j += 1
            k = j - i + 1
            folded.append(f'{k}*{texts[i].strip()}' if k > 1 else texts[i])
            i = j + 1
        groups = folded
    else:
        groups = texts
    # repeated blocks: if the whole list is m copies of a block, write m*(block)
    if style & 4 and groups and not (style & 2):
        n = len(texts)
        for blk in range(1, n // 2 + 1):
            if n % blk == 0 and all(texts[i] == texts[i % blk] for i in range(n)) and all('=' not in t for t in texts):
                groups = [f'{n // blk}*(' + ','.join(t for t in texts[:blk]) + ')']
                break
        else:
            if len(groups) >= 2:
                groups = ['1*(' + ', '.join(groups[:-1]) + ')', groups[-1]]
    if style & 1 and len(groups) > 1:
        half = len(groups) // 2
        return [', '.join(groups[:half]), ','.join(groups[half:])], kwargs
    return ', '.join(groups), kwargs


def _pack_values(w, c):
    vals = []
    for v in c['va']:
        vals.append(pyval(w, v))
    return vals


@op('pack')
def _pack(w, c):
    fmt, kw = render_format(w, c['tk'], c['ia'][0] if c['ia'] else 0)
    return w.bs.pack(fmt, *_pack_values(w, c), **kw)


@op('newfmt')
def _newfmt(w, c):
    fmt, kw = render_format(w, c['tk'], (c['ia'][0] if c['ia'] else 0) & ~9)
    if isinstance(fmt, list):
        fmt = ','.join(fmt)
    cls = w.cls(c['sa'][0])
    if len(c['sa']) > 1 and c['sa'][1] == 'fromstring':
        return cls.fromstring(fmt)
    return cls(fmt)


def _hints_for_tokens(toks):
    return [_hint_for(tk['nm']) for tk in toks if tk['nm'] != 'pad']


def _parse_result(r, toks):
    if not isinstance(r, list):
        return enc.OPAQUE
    hints = _hints_for_tokens(toks)
    if len(hints) != len(r):
        hints = None
    return Multi(r, hints)


def _fmt_for_read(w, c):
    style = c['ia'][0] if c['ia'] else 0
    toks = c['tk']
    if style & 128:
        # list form with bare integers for 'bits:n' tokens
        out, kw = [], {}
        for i, tk in enumerate(toks):
            if tk['nm'] == 'bits' and N(tk['n']) is not None:
                out.append(N(tk['n']))
            else:
                out.append(_tok_text(w, tk, style & ~16, kw, i).strip())
        return out, kw
    return render_format(w, toks, style)


@op('unpack')
def _unpack(w, c):
    fmt, kw = _fmt_for_read(w, c)
    return _parse_result(T(w, c).unpack(fmt, **kw), c['tk'])


@op('readlist')
def _readlist(w, c):
    fmt, kw = _fmt_for_read(w, c)
    return _parse_result(T(w, c).readlist(fmt, **kw), c['tk'])


@op('peeklist')
def _peeklist(w, c):
    fmt, kw = _fmt_for_read(w, c)
    return _parse_result(T(w, c).peeklist(fmt, **kw), c['tk'])


def _struct_fmt(sa, style):
    prefix, codes = sa[0], sa[1:]
    if style & 4:
        # a repeated block of codes written with a multiplier: hBhB -> 2*>hB
        n = len(codes)
        for blk in range(1, n // 2 + 1):
            if n % blk == 0 and all(codes[i] == codes[i % blk] for i in range(n)):
                return f'{n // blk}*{prefix}' + ''.join(codes[:blk])
    if style & 2:
        out, i = '', 0
        while i < len(codes):
            j = i
            while j + 1 < len(codes) and codes[j + 1] == codes[i]:
                j += 1
            out += (str(j - i + 1) if j > i else '') + codes[i]
            i = j + 1
        return prefix + out
    return prefix + ''.join(codes)


@op('packstruct')
def _packstruct(w, c):
    return w.bs.pack(_struct_fmt(c['sa'], c['ia'][0] if c['ia'] else 0), *_pack_values(w, c))


@op('unpackstruct')
def _unpackstruct(w, c):
    r = T(w, c).unpack(_struct_fmt(c['sa'], c['ia'][0] if c['ia'] else 0))
    return Multi(r) if isinstance(r, list) else enc.OPAQUE


# ---------------------------------------------------------------------------
# serialisation and windows (C17, C15, C08)

@op('tofile')
def _tofile(w, c):
    """write to a real file (sa[0]: 'path' | 'bytesio'), optionally with the chunk hook (ia[0] = chunk bits or NONE)"""
    t = T(w, c)
    how = c['sa'][0] if c['sa'] else 'path'
    chunk = N(c['ia'][0]) if c['ia'] else None
    old = os.environ.get('BITSTRING_VERIF_TOFILE_CHUNK_BITS')
    if chunk is not None:
        os.environ['BITSTRING_VERIF_TOFILE_CHUNK_BITS'] = str(chunk)
    try:
        if how == 'bytesio':
            f = io.BytesIO()
            t.tofile(f)
            return f.getvalue()
        w._filecount = getattr(w, '_filecount', 0) + 1
        fn = os.path.join(w.tmpdir, f'o{os.getpid()}_{w._filecount}.bin')
        with open(fn, 'wb') as f:
            t.tofile(f)
        with open(fn, 'rb') as f:
            data = f.read()
        os.remove(fn)
        return data
    finally:
        if chunk is not None:
            if old is None:
                os.environ.pop('BITSTRING_VERIF_TOFILE_CHUNK_BITS', None)
            else:
                os.environ['BITSTRING_VERIF_TOFILE_CHUNK_BITS'] = old


@op('mkwin')
def _mkwin(w, c):
    clsname, kind = c['sa'][0], c['sa'][1]
    off, ln, pos = (N(x) for x in c['ia'][:3])
    bits = c['xs'][0]['v']
    cls = w.cls(clsname)
    kw = {}
    if off is not None:
        kw['offset'] = off
    if ln is not None:
        kw['length'] = ln
    if pos is not None:
        kw['pos'] = pos
    if kind == 'bitarray_kw':
        return cls(bitarray=w.make_lit('bitarray', bits), **kw)
    if kind == 'bitarray_le_kw':
        return cls(bitarray=w.make_lit('bitarray_le', bits), **kw)
    data = w.make_lit('bytes', bits)
    if kind == 'bytes':
        return cls(bytes=data, **kw)
    if kind == 'bytearray':
        return cls(bytes=bytearray(data), **kw)
    if kind == 'bytesio':
        return cls(io.BytesIO(data), **kw)
    w._filecount = getattr(w, '_filecount', 0) + 1
    fn = os.path.join(w.tmpdir, f'w{os.getpid()}_{w._filecount}.bin')
    with open(fn, 'wb') as f:
        f.write(data)
    if kind == 'filename':
        return cls(filename=fn, **kw)
    if kind == 'filehandle':
        with open(fn, 'rb') as f:
            return cls(f, **kw)
    raise ValueError(kind)


# ---------------------------------------------------------------------------
# derivation routes and external buffers (C04)

@op('setbits')
def _setbits(w, c):
    """t.bits = x"""
    T(w, c).bits = w.operand(c['xs'][0])


@op('getbits')
def _getbits(w, c):
    return T(w, c).bits


@op('mkext')
def _mkext(w, c):
    """create a user-held buffer rid from bits: sa[0] in bytearray|bitarray|array|memoryview"""
    import array
    import bitarray
    kind = c['sa'][0]
    bits = c['xs'][0]['v']
    if kind == 'bitarray':
        buf = bitarray.bitarray(enc.str_of_bits(bits))
    elif kind == 'bytearray':
        buf = w.make_lit('bytearray', bits)
    elif kind == 'memoryview':
        w.ext[c['rid'] + '_base'] = w.make_lit('bytearray', bits)
        buf = memoryview(w.ext[c['rid'] + '_base'])
    elif kind == 'array':
        buf = array.array('B', w.make_lit('bytes', bits))
    else:
        raise ValueError(kind)
    w.ext[c['rid']] = buf
    return None


@op('mkfromext')
def _mkfromext(w, c):
    """object from a user-held buffer: sa = [class, how]; how in auto|bytes_kw|bitarray_kw|bytes_off"""
    cls = w.cls(c['sa'][0])
    buf = w.ext[c['sa'][2]]
    how = c['sa'][1]
    if how == 'auto':
        return cls(buf)
    if how == 'bytes_kw':
        return cls(bytes=buf)
    if how == 'bytes_off':
        return cls(bytes=buf, offset=0, length=len(buf) * 8)
    if how == 'bitarray_kw':
        return cls(bitarray=buf)
    raise ValueError(how)


@op('extmut')
def _extmut(w, c):
    """mutate a user-held buffer in place: ia[0] selects the mutation"""
    import bitarray
    buf = w.ext.get(c['sa'][0])
    k = c['ia'][0]
    if buf is None:
        return None
    if isinstance(buf, memoryview):
        buf = w.ext[c['sa'][0] + '_base']
    if isinstance(buf, bitarray.bitarray):
        try:
            if k % 3 == 0:
                buf.invert()
            elif k % 3 == 1:
                buf.append(1)
            else:
                buf.clear()
        except TypeError:
            pass        # frozen
    else:
        if len(buf):
            buf[k % len(buf)] ^= 0xff
    return None


@op('tobitarray')
def _tobitarray(w, c):
    r = T(w, c).tobitarray()
    w.ext[c['rid']] = r
    return Multi([[int(b) for b in r]], ['small'])


@op('packobj')
def _packobj(w, c):
    """pack('bits, uint:8, bits', obj1, 5, obj2)-like: xs operands fill 'bits' tokens, ia fill uint:8 tokens"""
    n = len(c['xs'])
    fmt = ', '.join(['bits'] * n + ['uint:8'] * len(c['ia']))
    return w.bs.pack(fmt, *[w.operand(x) for x in c['xs']], *c['ia'])


@op('dtypebuild_bits')
def _dtypebuild_bits(w, c):
    return w.bs.Dtype('bits').build(w.operand(c['xs'][0]))


@op('dtypeparse_bits')
def _dtypeparse_bits(w, c):
    return w.bs.Dtype('bits').parse(w.operand(c['xs'][0]))


@op('newscaled')
def _newscaled(w, c):
    """Dtype(name, n, scale=2**k).build(value)"""
    name, n, k = c['sa'][0], c['ia'][0], c['ia'][1]
    scale = 2 ** k if k >= 0 else 2.0 ** k
    if len(c['sa']) > 1 and c['sa'][1] == 'float':
        scale = float(scale)
    return w.bs.Dtype(name, n, scale=scale).build(pyval(w, c['va'][0]))


@op('interpscaled')
def _interpscaled(w, c):
    name, n, k = c['sa'][0], c['ia'][0], c['ia'][1]
    scale = 2 ** k if k >= 0 else 2.0 ** k
    r = w.bs.Dtype(name, n, scale=scale).parse(T(w, c))
    if isinstance(r, int) and not isinstance(r, bool):
        return r
    return float(r) if isinstance(r, (int, float)) else enc.OPAQUE



# ---------------------------------------------------------------------------
# Array (C14)

def _dtype_arg(w, c, name, n, style=0):
    """how the dtype is handed to Array: a token string ('uint8', 'uint:8'), or a Dtype object"""
    if style == 9:
        return c['sa'][2]           # struct spelling such as '>H'
    if style % 3 == 2:
        return w.bs.Dtype(name, n)
    return tokname(name, n, style).strip()


def _items(w, c):
    return [pyval(w, v) for v in c['va']]


@op('anew')
def _anew(w, c):
    name, n = c['sa'][0], N(c['ia'][0])
    style = c['ia'][1] if len(c['ia']) > 1 else 0
    items = _items(w, c)
    kw = {}
    if c['xs']:
        kw['trailing_bits'] = w.operand(c['xs'][0])
    how = c['sa'][1] if len(c['sa']) > 1 else 'list'
    if how == 'tuple':
        items = tuple(items)
    elif how == 'iter':
        items = iter(items)
    elif how == 'extend':
        a = w.bs.Array(_dtype_arg(w, c, name, n, style))
        a.extend(items)
        if c['xs']:
            a.data += w.operand(c['xs'][0])
        return a
    return w.bs.Array(_dtype_arg(w, c, name, n, style), items, **kw)


@op('ascaled')
def _ascaled(w, c):
    """Array(Dtype(name, n, scale=2**k), items) built at once / by append / by extend / by item assignment over
    zeros: returns its data and its items as read back"""
    name, n, k = c['sa'][0], N(c['ia'][0]), c['ia'][1]
    how = c['sa'][1] if len(c['sa']) > 1 else 'list'
    scale = 2 ** k if k >= 0 else 2.0 ** k
    dt = w.bs.Dtype(name, n, scale=scale)
    items = _items(w, c)
    if how == 'append':
        a = w.bs.Array(dt)
        for it in items:
            a.append(it)
    elif how == 'extend':
        a = w.bs.Array(dt)
        a.extend(items)
    elif how == 'setitem':
        a = w.bs.Array(dt, [0] * len(items))
        for i, it in enumerate(items):
            a[i] = it
    else:
        a = w.bs.Array(dt, items)
    vals = a.tolist()
    out = []
    for v in vals:
        if isinstance(v, int) and not isinstance(v, bool):
            out.append(v)
        elif isinstance(v, float):
            out.append(v)
        else:
            return enc.OPAQUE
    return Multi([w.bs.BitArray(a.data)] + out)


DTYPE_NAMES = ['uint', 'int', 'uintbe', 'intbe', 'uintle', 'intle', 'float', 'floatle', 'bfloat', 'bfloatle', 'hex', 'oct',
               'bin', 'bytes', 'bool', 'bits', 'pad', 'ue', 'se', 'uie', 'sie', 'p3binary', 'p4binary', 'e4m3mxfp',
               'e5m2mxfp', 'e3m2mxfp', 'e2m3mxfp', 'e2m1mxfp', 'e8m0mxfp', 'mxint']      # = DtypeNameList in Codec.tla


@op('dtypeinfo')
def _dtypeinfo(w, c):
    """the attributes of Dtype(name, n) (or of Dtype('<name><n>') for style 1)"""
    name, n = c['sa'][0], N(c['ia'][0])
    style = c['ia'][1] if len(c['ia']) > 1 else 0
    d = w.bs.Dtype(name, n) if style == 0 or n is None else w.bs.Dtype(f'{name}{n}' if style == 1 else f'{name}:{n}')
    rt = {int: 0, float: 1, str: 2, bytes: 3, bool: 4}.get(d.return_type, 5)
    opt = lambda x: None if x is None else [9, int(x)]
    items = [[9, DTYPE_NAMES.index(d.name) + 1], opt(d.length), opt(d.bitlength), [9, int(d.bits_per_item)],
             [1, int(bool(d.is_signed))], [1, int(bool(d.variable_length))], [9, rt]]
    return Multi([[0] if x is None else x for x in items], ['raw'] * 7)


@op('aastype')
def _aastype(w, c):
    name, n = c['sa'][0], N(c['ia'][0])
    style = c['ia'][1] if len(c['ia']) > 1 else 0
    return T(w, c).astype(_dtype_arg(w, c, name, n, style))


@op('afromfile')
def _afromfile(w, c):
    """a.fromfile(f, n) with f a real file or a BytesIO holding the bytes of xs[0]"""
    data = w.make_lit('bytes', c['xs'][0]['v'])
    n = N(c['ia'][0]) if c['ia'] else None
    how = c['sa'][0] if c['sa'] else 'path'
    if how == 'bytesio':
        f = io.BytesIO(data)
        return T(w, c).fromfile(f) if n is None else T(w, c).fromfile(f, n)
    w._filecount = getattr(w, '_filecount', 0) + 1
    fn = os.path.join(w.tmpdir, f'af{os.getpid()}_{w._filecount}.bin')
    with open(fn, 'wb') as f:
        f.write(data)
    with open(fn, 'rb') as f:
        return T(w, c).fromfile(f) if n is None else T(w, c).fromfile(f, n)


@op('anewdata')
def _anewdata(w, c):
    name, n = c['sa'][0], N(c['ia'][0])
    style = c['ia'][1] if len(c['ia']) > 1 else 0
    return w.bs.Array(_dtype_arg(w, c, name, n, style), w.operand(c['xs'][0]))


@op('alen', 'small')
def _alen(w, c):
    return len(T(w, c))


@op('aitemsize', 'small')
def _aitemsize(w, c):
    return T(w, c).itemsize


def _item_hint(w, c):
    return _hint_for(T(w, c).dtype.name)


@op('agetitem')
def _agetitem(w, c):
    return Multi([T(w, c)[c['ia'][0]]], [_item_hint(w, c)])


@op('agetslice')
def _agetslice(w, c):
    a, b, st = (N(x) for x in c['ia'][:3])
    return T(w, c)[a:b:st]


@op('atolist')
def _atolist(w, c):
    r = T(w, c).tolist()
    return Multi(r, [_item_hint(w, c)] * len(r))


@op('aiter')
def _aiter(w, c):
    r = list(iter(T(w, c)))
    return Multi(r, [_item_hint(w, c)] * len(r))


@op('atrailing')
def _atrailing(w, c):
    return T(w, c).trailing_bits


@op('adata')
def _adata(w, c):
    # a copy: the data attribute itself is the internal buffer by design
    return T(w, c).data.copy()


@op('atobytes')
def _atobytes(w, c):
    return T(w, c).tobytes()


@op('atofile')
def _atofile(w, c):
    f = io.BytesIO()
    T(w, c).tofile(f)
    return f.getvalue()


@op('acopy')
def _acopy(w, c):
    how = c['sa'][0] if c['sa'] else 'copy'
    a = T(w, c)
    if how == 'slice':
        return a[:]
    return _copy.copy(a)


@op('asetitem')
def _asetitem(w, c):
    T(w, c)[c['ia'][0]] = pyval(w, c['va'][0])


@op('asetslice')
def _asetslice(w, c):
    a, b, st = (N(x) for x in c['ia'][:3])
    T(w, c)[a:b:st] = _items(w, c)


@op('adelitem')
def _adelitem(w, c):
    del T(w, c)[c['ia'][0]]


@op('adelslice')
def _adelslice(w, c):
    a, b, st = (N(x) for x in c['ia'][:3])
    del T(w, c)[a:b:st]


@op('aappend')
def _aappend(w, c):
    T(w, c).append(pyval(w, c['va'][0]))


@op('aextend')
def _aextend(w, c):
    T(w, c).extend(_items(w, c))


@op('ainsert')
def _ainsert(w, c):
    T(w, c).insert(c['ia'][0], pyval(w, c['va'][0]))


@op('apop')
def _apop(w, c):
    i = N(c['ia'][0])
    r = T(w, c).pop() if i is None else T(w, c).pop(i)
    return Multi([r], [_item_hint(w, c)])


@op('areverse')
def _areverse(w, c):
    T(w, c).reverse()


@op('acount', 'small')
def _acount(w, c):
    return T(w, c).count(pyval(w, c['va'][0]))


@op('aequals')
def _aequals(w, c):
    return T(w, c).equals(w.objs[c['xs'][0]['id']])


@op('asetdtype')
def _asetdtype(w, c):
    name, n = c['sa'][0], N(c['ia'][0])
    T(w, c).dtype = _dtype_arg(w, c, name, n, c['ia'][1] if len(c['ia']) > 1 else 0)


@op('abyteswap')
def _abyteswap(w, c):
    T(w, c).byteswap()


import operator as _operator
_OPS = {'add': _operator.add, 'sub': _operator.sub, 'mul': _operator.mul, 'floordiv': _operator.floordiv,
        'mod': _operator.mod, 'lshift': _operator.lshift, 'rshift': _operator.rshift}
_IOPS = {'add': _operator.iadd, 'sub': _operator.isub, 'mul': _operator.imul, 'floordiv': _operator.ifloordiv,
         'mod': _operator.imod, 'lshift': _operator.ilshift, 'rshift': _operator.irshift}
_CMP = {'lt': _operator.lt, 'gt': _operator.gt, 'le': _operator.le, 'ge': _operator.ge, 'eq': _operator.eq, 'ne': _operator.ne}


@op('aop')
def _aop(w, c):
    return _OPS[c['sa'][0]](T(w, c), pyval(w, c['va'][0]))


@op('aiop')
def _aiop(w, c):
    a = T(w, c)
    a = _IOPS[c['sa'][0]](a, pyval(w, c['va'][0]))
    return a


_FOPS = dict(_OPS, truediv=_operator.truediv)
_FIOPS = dict(_IOPS, truediv=_operator.itruediv)


def _float_oracle(w, c):
    """what Python's float arithmetic gives for op(item, scalar) on every item as read back (IEEE double arithmetic is
    an input to the specification, not modelled): [0] marks an item on which Python itself raises"""
    a = T(w, c)
    y = pyval(w, c['va'][0])
    res = []
    for v in a.tolist():
        try:
            r = _FOPS[c['sa'][0]](v, y)
            res.append(enc.enc_value(float(r)) if isinstance(r, (int, float)) and not isinstance(r, bool) else [13])
        except (ZeroDivisionError, OverflowError, ValueError):
            res.append([0])
    c['_oracle'] = res


@op('aopf')
def _aopf(w, c):
    _float_oracle(w, c)
    return _FOPS[c['sa'][0]](T(w, c), pyval(w, c['va'][0]))


@op('aopaf')
def _aopaf(w, c):
    """Array op Array where at least one side holds floats: Python's result for every pair of items is an oracle input"""
    a, b = T(w, c), w.objs[c['xs'][0]['id']]
    res = []
    for x, y in zip(a.tolist(), b.tolist()):
        try:
            r = _FOPS[c['sa'][0]](x, y)
            res.append(enc.enc_value(float(r)) if isinstance(r, (int, float)) and not isinstance(r, bool) else [13])
        except (ZeroDivisionError, OverflowError, ValueError):
            res.append([0])
    c['_oracle'] = res
    return _FOPS[c['sa'][0]](a, b)


@op('aiopf')
def _aiopf(w, c):
    _float_oracle(w, c)
    a = T(w, c)
    a = _FIOPS[c['sa'][0]](a, pyval(w, c['va'][0]))
    return a


@op('acmp')
def _acmp(w, c):
    return _CMP[c['sa'][0]](T(w, c), pyval(w, c['va'][0]))


@op('aunary')
def _aunary(w, c):
    return -T(w, c) if c['sa'][0] == 'neg' else abs(T(w, c))


@op('abitop')
def _abitop(w, c):
    a = T(w, c)
    x = w.operand(c['xs'][0])
    opn, how = c['sa'][0], c['sa'][1]
    if how == 'inplace':
        if opn == 'and':
            a &= x
        elif opn == 'or':
            a |= x
        else:
            a ^= x
        return a
    return {'and': _operator.and_, 'or': _operator.or_, 'xor': _operator.xor}[opn](a, x)


@op('aopa')
def _aopa(w, c):
    return _OPS[c['sa'][0]](T(w, c), w.objs[c['xs'][0]['id']])


@op('aextendarr')
def _aextendarr(w, c):
    T(w, c).extend(w.objs[c['xs'][0]['id']])


@op('afromarray')
def _afromarray(w, c):
    import array
    name, n = c['sa'][0], N(c['ia'][0])
    arr = array.array(c['sa'][1], _items(w, c))
    how = c['sa'][2] if len(c['sa']) > 2 else 'ctor'
    if how == 'extend':
        a = w.bs.Array(tokname(name, n, 0))
        a.extend(arr)
        return a
    return w.bs.Array(tokname(name, n, 0), arr)


# ---------------------------------------------------------------------------
# C20: any public callable with arbitrary well-typed arguments.  The specification leaves the outcome
# open (Unconstrained) but the envelope still applies: documented exception types only, every object
# still valid (pos, len), immutable objects and options unchanged.

def _raw_arg(w, a):
    """argument descriptor -> Python value.  ['i', n] int, ['s', text] str, ['n'] None, ['b', 0/1] bool,
    ['f', float-as-text] float, ['o', id] tracked object, ['l', [bits]] list of bools, ['x', kind, [bits]] literal,
    ['li', [ints]] list of ints, ['y', [bytes]] bytes, ['r', a, b, c] range"""
    k = a[0]
    if k == 'i':
        return int(a[1])
    if k == 's':
        return a[1]
    if k == 'n':
        return None
    if k == 'b':
        return bool(a[1])
    if k == 'f':
        return float(a[1])
    if k == 'o':
        return w.objs[a[1]]
    if k == 'l':
        return [bool(b) for b in a[1]]
    if k == 'x':
        return w.make_lit(a[1], a[2])
    if k == 'li':
        return list(a[1])
    if k == 'y':
        return bytes(a[1])
    if k == 'r':
        return range(a[1], a[2], a[3])
    if k == 'lo':
        return [_raw_arg(w, x) for x in a[1]]
    if k == 'sl':
        return slice(a[1], a[2], a[3])
    raise ValueError(k)


def _consume(r):
    """exhaust generators / iterators returned by the call (bounded)"""
    import types
    if isinstance(r, (types.GeneratorType,)) or (hasattr(r, '__next__')):
        out = []
        for i, x in enumerate(r):
            out.append(x)
            if i > 2000:
                break
        return out
    return r


@op('rawcall')
def _rawcall(w, c):
    """sa = [kind, name]; kind: method | getattr | setattr | ctor | func | operator ; raw = argument descriptors"""
    kind, name = c['sa'][0], c['sa'][1]
    args = [_raw_arg(w, a) for a in c.get('raw', [])]
    kwargs = {k: _raw_arg(w, a) for k, a in c.get('rawkw', {}).items()}
    bs = w.bs
    if name == 'pp' and kind == 'method':
        kwargs.setdefault('stream', io.StringIO())
    if kind == 'method':
        r = _consume(getattr(T(w, c), name)(*args, **kwargs))
    elif kind == 'getattr':
        r = getattr(T(w, c), name)
    elif kind == 'setattr':
        setattr(T(w, c), name, args[0])
        r = None
    elif kind == 'ctor':
        r = getattr(bs, name)(*args, **kwargs)
    elif kind == 'func':
        r = _consume(getattr(bs, name)(*args, **kwargs))
    elif kind == 'operator':
        import operator
        r = getattr(operator, name)(T(w, c), *args)
    elif kind == 'str':
        r = {'str': str, 'repr': repr, 'bytes': bytes, 'len': len, 'bool': bool, 'hash': hash, 'list': list}[name](T(w, c))
    else:
        raise ValueError(kind)
    # results are not judged (the specification leaves them open); bitstring objects among them are
    # registered so that later calls can use them and their validity is checked like everyone else's
    if isinstance(r, (bs.Bits, bs.Array)):
        return r
    if isinstance(r, (list, tuple)):
        objs = [x for x in r if isinstance(x, (bs.Bits, bs.Array))][:4]
        if objs:
            return Multi(objs)
    return None


# ---------------------------------------------------------------------------
# printable forms (C19): small trusted lexers turn the produced text into digit tokens and layout facts

import re as _re
_ANSI = _re.compile(r'\x1b\[[0-9;]*m')


def _lex_literals(text):
    """'0x1f, 0b101' -> [[4, 1, 15], [6, 1, 0, 1]] ; raises ValueError if anything else is in the text"""
    toks = []
    for part in [p.strip() for p in text.split(',')]:
        if part == '':
            continue
        if part.startswith('0x'):
            toks.append([4] + [int(ch, 16) for ch in part[2:]])
        elif part.startswith('0b'):
            toks.append([6] + [int(ch, 2) for ch in part[2:]])
        elif part.startswith('0o'):
            toks.append([5] + [int(ch, 8) for ch in part[2:]])
        else:
            raise ValueError('unexpected text in str(): %r' % part)
    return toks


@op('str_lex')
def _str_lex(w, c):
    s = str(T(w, c))
    trunc = s.endswith('...')
    body = s[:-3] if trunc else s
    try:
        toks = _lex_literals(body)
    except ValueError:
        return enc.OPAQUE
    return Multi([[9, int(trunc)]] + toks, ['raw'] * (1 + len(toks)))


@op('repr_eval')
def _repr_eval(w, c):
    t = T(w, c)
    r = repr(t)
    if '...' in r:
        m = _re.search(r'#\s*length=(\d+)', r)
        return Multi([[9, 1], [9, int(m.group(1)) if m else -1]], ['raw', 'raw'])
    bs = w.bs
    obj = eval(r, {'Bits': bs.Bits, 'BitArray': bs.BitArray, 'ConstBitStream': bs.ConstBitStream, 'BitStream': bs.BitStream})
    return Multi([[9, 0], obj], ['raw', None])


@op('arepr_eval')
def _arepr_eval(w, c):
    a = T(w, c)
    bs = w.bs
    obj = eval(repr(a), {'Array': bs.Array, 'BitArray': bs.BitArray, 'Bits': bs.Bits, 'inf': float('inf'), 'nan': float('nan')})
    same = isinstance(obj, bs.Array) and obj.dtype == a.dtype and obj.equals(a)
    return Multi([[9, int(same)], obj], ['raw', None])


_RADIX = {'bin': (6, 2), 'b': (6, 2), 'hex': (4, 16), 'h': (4, 16), 'oct': (5, 8), 'o': (5, 8)}


def _lex_part(text, name, sep):
    """one format's part of a pp line -> list of groups, each a list of digits"""
    tag, base = _RADIX[name]
    chunks = text.split(sep) if sep else [text]
    groups = []
    for ch in chunks:
        ch = ch.strip()
        if ch == '':
            continue
        groups.append([int(x, base) for x in ch])
    return groups


@op('pp_lex')
def _pp_lex(w, c):
    """sa = [fmt string, name1, name2 or '', sep]; ia = [group bits, width, no_color, two formats, show_offset]"""
    fmt, n1, n2, sep = c['sa'][0], c['sa'][1], c['sa'][2], c['sa'][3]
    gbits, width, nocolor, two, show_offset = c['ia'][:5]
    t = T(w, c)
    out = io.StringIO()
    old = w.bs.options.no_color
    w.bs.options.no_color = bool(nocolor)
    try:
        t.pp(fmt if fmt else None, width=width, sep=sep, show_offset=bool(show_offset), stream=out)
    finally:
        w.bs.options.no_color = old
    text = out.getvalue()
    esc = text.count('\x1b')
    plain = _ANSI.sub('', text)
    lines = plain.split('\n')
    if lines and lines[-1] == '':
        lines = lines[:-1]
    header, body, tail = lines[0], lines[1:-1], lines[-1]
    if not header.startswith('<') or not tail.startswith(']'):
        return enc.OPAQUE
    trailing = []
    if 'trailing_bits' in tail:
        lit = tail.split('=', 1)[1].strip()
        for tok in _lex_literals(lit):
            wd = {4: 4, 5: 3, 6: 1}[tok[0]]
            for d in tok[1:]:
                trailing += [(d >> (wd - 1 - k)) & 1 for k in range(wd)]
    lsb0 = bool(w.bs.options.lsb0)
    tag1 = _RADIX[n1][0]
    d1, d2, groups1, linelens, perline = [tag1], [_RADIX[n2][0]] if n2 else [6], [11], [11], [11]
    for ln in body:
        linelens.append(len(ln))
        content = ln
        if show_offset:
            if lsb0:
                content = ln.rsplit(' :', 1)[0]
            else:
                content = ln.split(': ', 1)[1] if ': ' in ln else ln
        parts = content.split(' : ') if n2 else [content]
        g1 = _lex_part(parts[0], n1, sep)
        if lsb0:
            pass
        for g in g1:
            d1 += g
            groups1.append(len(g))
        perline.append(len(g1))
        if n2 and len(parts) > 1:
            for g in _lex_part(parts[1], n2, sep):
                d2 += g
    return Multi([[9, esc], d1, d2, groups1, linelens, perline, [6] + trailing], ['raw'] * 7)
