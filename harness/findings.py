"""Classification of rejected events: known findings vs. violations, replay files."""
import json
import os
import subprocess
import sys

from . import tlc
from .tlc import VERIF, MachineryError
from .enc import NONE_I

KF_PATH = os.path.join(VERIF, 'known_findings.json')


def load_all():
    if not os.path.exists(KF_PATH):
        return []
    with open(KF_PATH) as f:
        return json.load(f).get('findings', [])


def load_known():
    if not os.path.exists(KF_PATH):
        return []
    with open(KF_PATH) as f:
        data = json.load(f)
    return [e for e in data.get('findings', []) if e.get('status') == 'known']


def sign(x):
    if x == NONE_I:
        return 'none'
    return 'neg' if x < 0 else ('zero' if x == 0 else 'pos')


def features(ev, prog=None):
    """Flat description of *what was called with what kind of input* (never of the outcome,
    except the failing clause name which says which part of the contract is concerned)."""
    f = {'op': ev['op'], 'lsb0': ev['opts']['lsb0'], 'ba': ev['opts']['ba'], 'mx': ev['opts']['mx']}
    ia = ev.get('ia', [])
    for i, x in enumerate(ia[:5]):
        f[f'ia{i + 1}'] = sign(x)
    f['nia'] = len(ia)
    for i, s in enumerate(ev.get('sa', [])[:4]):
        f[f'sa{i + 1}'] = s
    xs = ev.get('xs', [])
    for i, x in enumerate(xs[:2]):
        f[f'x{i + 1}kind'] = x['kind']
        f[f'x{i + 1}len'] = 'empty' if not x['v'] else 'nonempty'
        f[f'x{i + 1}self'] = (x['k'] == 'obj' and x['id'] == ev.get('t'))
    f['nxs'] = len(xs)
    if ev['op'] in ('packstruct', 'unpackstruct') and ev.get('sa'):
        import struct
        codes = ''.join(ev['sa'][1:])
        try:
            f['native_layout_differs'] = (ev['sa'][0] == '@' and
                                          (struct.calcsize('@' + codes) != struct.calcsize('=' + codes)
                                           or any(struct.calcsize('@' + c) != struct.calcsize('=' + c) for c in codes)))
        except struct.error:
            f['native_layout_differs'] = False
    return f


def target_features(ev, pre):
    """Features that need the state before the call: class / length of the target."""
    f = {}
    t = ev.get('t')
    if t and t in pre:
        f['tcls'] = pre[t]['c']
        f['tlen'] = 'empty' if not pre[t]['v'] else 'nonempty'
        f['route'] = pre[t].get('route', '')
        xs = ev.get('xs', [])
        if xs:
            f['x1longer'] = len(xs[0]['v']) > len(pre[t]['v'])
            f['x1samelen'] = len(xs[0]['v']) == len(pre[t]['v'])
    return f


def matches(entry, feats):
    for k, want in entry['match'].items():
        got = feats.get(k)
        if isinstance(want, list):
            if got not in want:
                return False
        elif got != want:
            return False
    return True


def rerun(programs):
    """Re-execute programs in a fresh interpreter and return their events (list per program)."""
    code = ("import sys, json; sys.path.insert(0, %r)\n"
            "from harness.world import World\n"
            "import tempfile\n"
            "w = World(tmpdir=tempfile.mkdtemp(prefix='verif_rr_', dir=('/dev/shm' if __import__('os').path.isdir('/dev/shm') else None)))\n"
            "progs = json.load(sys.stdin)\n"
            "out = []\n"
            "for p in progs:\n"
            "    try:\n"
            "        out.append(w.run_program(p))\n"
            "    except Exception as e:\n"
            "        out.append([])\n"
            "import shutil; shutil.rmtree(w.tmpdir, ignore_errors=True)\n"
            "json.dump(out, open(sys.argv[1], 'w'))\n") % VERIF
    import tempfile
    fd, outpath = tempfile.mkstemp(prefix='verif_rr_', suffix='.json', dir=('/dev/shm' if __import__('os').path.isdir('/dev/shm') else None))
    os.close(fd)
    try:
        p = subprocess.run([sys.executable, '-c', code, outpath], input=json.dumps(programs), capture_output=True, text=True)
        if p.returncode != 0:
            raise MachineryError('re-execution failed: ' + p.stderr[-2000:])
        with open(outpath) as f:
            return json.load(f)
    finally:
        os.remove(outpath)


def confirm(check):
    """Re-execute every rejected program in a fresh interpreter and validate again.
    Returns list of dict(tid, seq, clause, ev, pre, prog)."""
    tids = sorted({t for t, _, _ in check.rejects})
    if not tids:
        return []
    # keep the confirmation step bounded: one program per (clause, op-of-program) class first
    if len(tids) > 300:
        seen, keep = set(), []
        for t, s_, c in sorted(check.rejects):
            key = (c, check.programs[t]['calls'][min(s_, len(check.programs[t]['calls']) - 1)]['op'])
            if key not in seen or len(keep) < 300:
                if t not in keep:
                    keep.append(t)
                seen.add(key)
        check.notes.append(f'{len(tids)} programs had rejected events; {len(keep)} re-executed for confirmation')
        tids = sorted(keep)
    progs = [check.programs[t] for t in tids]
    evlists = rerun(progs)
    path = os.path.join(check.wd, 'confirm.ndjson')
    with open(path, 'w') as f:
        for evs in evlists:
            for ev in evs:
                f.write(json.dumps(ev, separators=(',', ':')) + '\n')
    v = tlc.validate_shards([path], check.wd, par=1)
    first = {r for r in check.rejects if r[0] in set(tids)}
    second = set(v['rejects'])
    out = []
    bytid = {p['tid']: (p, evs) for p, evs in zip(progs, evlists)}
    for (tid, seq, clause) in sorted(second):
        prog, evs = bytid[tid]
        pre = {}
        before = [e for e in evs if e['seq'] < seq]
        this = [e for e in evs if e['seq'] == seq][0]
        for e in before:
            for d in e.get('drop', []):
                pre.pop(d, None)
            pre.update(e['post'])
        # remember construction route of objects made by 'mk'
        for e in before:
            if e['op'] == 'mk' and e['out']['ids']:
                oid = e['out']['ids'][0]
                if oid in pre:
                    pre[oid] = dict(pre[oid], route=e['sa'][1])
        out.append({'tid': tid, 'seq': seq, 'clause': clause, 'ev': this, 'pre': pre, 'prog': prog})
    check.flaky = sorted(first - second)
    if check.flaky:
        out.extend(confirm_with_history(check, check.flaky))
    if check.flaky:
        check.notes.append(f'{len(check.flaky)} rejections did not reproduce in a fresh interpreter, alone or after the '
                           f'programs that ran before them (ignored): {check.flaky[:5]}')
    return out


def _pre_state(evs, seq):
    pre = {}
    for e in evs:
        if e['seq'] >= seq:
            break
        for d in e.get('drop', []):
            pre.pop(d, None)
        pre.update(e['post'])
    return pre


def confirm_with_history(check, flaky, limit=8):
    """A rejection that does not reproduce when its program runs alone may need what the same interpreter did
    before (process-wide state: class attributes, module caches). Re-execute the program after the programs that
    preceded it in its worker - the last 1, 3, 7, ... of them, then all - in a fresh interpreter; a rejection that
    comes back is reported with that prelude as part of the replay."""
    out = []
    done_classes = set()
    still = []
    for (tid, seq, clause) in flaky:
        prog = check.programs[tid]
        key = (clause, prog['calls'][min(seq, len(prog['calls']) - 1)]['op'])
        if key in done_classes or len(done_classes) >= limit or tid not in getattr(check, 'shard_of', {}):
            if key not in done_classes:
                still.append((tid, seq, clause))
            continue
        shard, idx = check.shard_of[tid]
        found = None
        k = 1
        while True:
            prelude = shard[max(0, idx - k):idx]
            evlists = rerun(prelude + [prog])
            path = os.path.join(check.wd, 'confirm_hist.ndjson')
            with open(path, 'w') as f:
                for evs in evlists:
                    for ev in evs:
                        f.write(json.dumps(ev, separators=(',', ':')) + '\n')
            v = tlc.validate_shards([path], check.wd, par=1)
            if (tid, seq, clause) in set(v['rejects']):
                found = (prelude, evlists[-1])
                break
            if k >= idx:
                break
            k = min(idx, 2 * k + 1)
        if found is None:
            still.append((tid, seq, clause))
            continue
        done_classes.add(key)
        prelude, evs = found
        this = [e for e in evs if e['seq'] == seq][0]
        out.append({'tid': tid, 'seq': seq, 'clause': clause, 'ev': this, 'pre': _pre_state(evs, seq), 'prog': prog,
                    'prelude': prelude})
    check.flaky = still
    return out


def classify(check):
    confirmed = confirm(check)
    known = load_known()
    seen = {}
    violations = []
    for r in confirmed:
        feats = features(r['ev'])
        feats.update(target_features(r['ev'], r['pre']))
        feats['clause'] = r['clause']
        r['features'] = feats
        hit = None
        for e in known:
            if matches(e, feats):
                hit = e
                break
        if hit is not None:
            seen.setdefault(hit['id'], [hit, 0])[1] += 1
        else:
            violations.append(r)
    # one violation per distinct (op, clause, features) class, to keep the report readable
    uniq = {}
    for v in violations:
        f = v['features']
        key = (f.get('op'), f.get('clause'), f.get('tcls'), f.get('lsb0'), f.get('x1kind'), f.get('sa1'))
        if key not in uniq and len(uniq) < 40:
            uniq[key] = v
    lines = [f"{e['id']}: {e['what']} [{n} events in this run]" for e, n in seen.values()]
    return list(uniq.values()), lines


def write_replay(check, v):
    from .core import digest
    os.makedirs(os.path.join(VERIF, 'replays'), exist_ok=True)
    prog = dict(v['prog'])
    prog['calls'] = prog['calls'][:v['seq'] + 1]
    body = {'property': check.pid, 'clause': v['clause'], 'seq': v['seq'], 'features': v['features'],
            'program': prog, 'observed_event': v['ev']}
    if v.get('prelude'):
        # programs the same interpreter must have run before (the rejection depends on process-wide state)
        body['prelude'] = v['prelude']
    path = os.path.join(VERIF, 'replays', f"{check.pid}-{digest(prog['calls'])}.json")
    with open(path, 'w') as f:
        json.dump(body, f, indent=1)
    return path


def replay(path):
    """Re-run a replay file: execute the program, validate with TLC, print the verdict."""
    with open(path) as f:
        body = json.load(f)
    if body.get('kind') == 'repository-test':
        from . import exttrace
        return exttrace.replay(body, path)
    prog = body['program']
    prog['tid'] = 1
    prelude = [dict(p, tid=-(i + 1)) for i, p in enumerate(body.get('prelude', []))]
    evlists = rerun(prelude + [prog])
    evs = evlists[-1]
    if prelude:
        print(f'({len(prelude)} prelude programs executed first in the same interpreter)')
    wd = tlc.workdir('replay_%d' % os.getpid())
    p = os.path.join(wd, 'replay.ndjson')
    with open(p, 'w') as f:
        for ev in evs:
            f.write(json.dumps(ev) + '\n')
    v = tlc.validate_shards([p], wd, par=1)
    import shutil
    shutil.rmtree(wd, ignore_errors=True)
    for ev in evs:
        print(json.dumps(ev)[:1500])
    if v['rejects']:
        for tid, seq, clause in v['rejects']:
            opn = [e['op'] for e in evs if e['seq'] == seq][0]
            print(f'REJECTED by the specification: call #{seq} ({opn}), clause {clause}')
        print(f"VIOLATION property={body['property']} replay={path}")
        return 1
    print('ACCEPTED: every event conforms to the specification')
    return 0


def add_witnessed(check, lines):
    """Every listed known finding of this property is reported when its witness program still fails on the
    current tree, whether or not the run's own inputs happened to hit it."""
    seen_ids = {l.split(':', 1)[0] for l in lines}
    todo = [e for e in load_known() if check.pid in e.get('properties', []) and e['id'] not in seen_ids
            and e.get('witness')]
    if not todo:
        return lines
    progs = []
    for i, e in enumerate(todo):
        progs.append(dict(e['witness'], tid=900000 + i))
    evlists = rerun(progs)
    path = os.path.join(check.wd, 'witness.ndjson')
    with open(path, 'w') as f:
        for evs in evlists:
            for ev in evs:
                f.write(json.dumps(ev, separators=(',', ':')) + '\n')
    v = tlc.validate_shards([path], check.wd, par=1)
    failing = {t for t, _, _ in v['rejects']}
    out = list(lines)
    for i, e in enumerate(todo):
        if 900000 + i in failing:
            out.append(f"{e['id']}: {e['what']} [witness program still rejected]")
        else:
            check.notes.append(f"known finding {e['id']}: witness no longer fails on this tree")
    return out
