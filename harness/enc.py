"""Value encoding shared by the runner (Python) and the specification (TLA+).

Every Python value that crosses the code/spec boundary is a flat list of small
integers, so that on the TLA+ side every event field has one fixed type
(Seq(Int) / Seq(Seq(Int))) and TLC never compares values of different kinds.

 tag  meaning                       payload
  0   None                          -
  1   bool                          0/1
  2   int (any size)                neg(0/1), magnitude bits MSB first (no leading zeros)
  3   float                         64 bits of the IEEE double, MSB first (NaN canonical)
  4   hex string                    digits 0..15
  5   oct string                    digits 0..7
  6   bin string                    digits 0..1
  7   bytes                         0..255 each
  8   bitstring object              class code, pos (-1 if no pos), n=len(s), bits of s.bin
  9   small int (positions, counts) value
 10   list/tuple of bools           0/1 each
 11   list/tuple of small ints      values
 12   text                          code points
 13   opaque / not representable    -
 14   list of values (nested)       not flattened: handled as separate vals
"""
import math
import struct

NONE_I = -1000000000
SMALL = 1 << 30

CLS_CODE = {'Bits': 1, 'BitArray': 2, 'ConstBitStream': 3, 'BitStream': 4}
CODE_CLS = {v: k for k, v in CLS_CODE.items()}


def bits_of_str(s):
    return [1 if ch == '1' else 0 for ch in s]


def str_of_bits(b):
    return ''.join('1' if x else '0' for x in b)


def enc_int(i):
    i = int(i)
    neg = 1 if i < 0 else 0
    m = -i if neg else i
    return [2, neg] + ([int(c) for c in bin(m)[2:]] if m else [])


def dec_int(v):
    assert v[0] == 2
    m = int(''.join(str(x) for x in v[2:]) or '0', 2)
    return -m if v[1] else m


def enc_float(f):
    f = float(f)
    if math.isnan(f):
        raw = 0x7ff8000000000000
    else:
        raw = struct.unpack('>Q', struct.pack('>d', f))[0]
    return [3] + [(raw >> (63 - k)) & 1 for k in range(64)]


def dec_float(v):
    raw = int(''.join(str(x) for x in v[1:]), 2)
    return struct.unpack('>d', struct.pack('>Q', raw))[0]


def enc_small(i):
    i = int(i)
    if abs(i) >= SMALL:
        raise Unloggable(f'small int out of range: {i}')
    return [9, i]


class Unloggable(Exception):
    pass


class _Opaque:
    pass


OPAQUE = _Opaque()


def project(obj):
    """Abstract state of one bitstring object: class, bits, pos, len()."""
    cls = type(obj).__name__
    if cls == 'Array':
        b = obj.data.bin
        return {'c': 'Array', 'v': bits_of_str(b), 'p': -1, 'n': len(obj.data), 'dn': obj.dtype.name,
                'dl': -1 if obj.dtype.length is None else int(obj.dtype.length)}
    b = obj.bin
    pos = getattr(obj, '_pos', None) if cls in ('ConstBitStream', 'BitStream') else None
    if cls in ('ConstBitStream', 'BitStream'):
        pos = obj.pos
    return {'c': cls, 'v': bits_of_str(b), 'p': -1 if pos is None else int(pos), 'n': len(obj)}


def enc_obj(obj):
    p = project(obj)
    if p['c'] == 'Array':
        return [15, 0, -1, p['n']] + p['v']
    return [8, CLS_CODE.get(p['c'], 0), p['p'], p['n']] + p['v']


def enc_value(x, hint=None):
    """Encode a Python value returned by the library.

    hint selects the reading of str values ('hex' / 'oct' / 'bin' / 'text') and
    of ints ('small' for positions and counts)."""
    import bitstring
    if hint == 'raw':
        return list(x)          # already encoded by the harness
    if x is None:
        return [0]
    if x is OPAQUE:
        return [13]
    if isinstance(x, bool):
        return [1, int(x)]
    if isinstance(x, (bitstring.Bits, bitstring.Array)):
        return enc_obj(x)
    if isinstance(x, int):
        return enc_small(x) if hint == 'small' else enc_int(x)
    if isinstance(x, float):
        return enc_float(x)
    if isinstance(x, (bytes, bytearray)):
        return [7] + list(x)
    if isinstance(x, str):
        if hint == 'hex':
            return [4] + [int(c, 16) for c in x]
        if hint == 'oct':
            return [5] + [int(c, 8) for c in x]
        if hint == 'bin':
            return [6] + [int(c, 2) for c in x]
        return [12] + [ord(c) for c in x]
    if isinstance(x, (tuple, list)):
        if hint == 'small':
            if all(isinstance(e, int) and not isinstance(e, bool) for e in x):
                return [11] + [enc_small(e)[1] for e in x]
            return [13]
        if all(isinstance(e, bool) for e in x):
            return [10] + [int(e) for e in x]
        if all(isinstance(e, int) for e in x):
            return [11] + [enc_small(e)[1] for e in x]
    return [13]


EXC_CATS = ('ReadError', 'ByteAlignError', 'Error', 'IndexError', 'ValueError', 'TypeError', 'OSError')


def exc_categories(e):
    import bitstring
    table = {'ReadError': bitstring.ReadError, 'ByteAlignError': bitstring.ByteAlignError,
             'Error': bitstring.Error, 'IndexError': IndexError, 'ValueError': ValueError,
             'TypeError': TypeError, 'OSError': OSError}
    cats = [name for name in EXC_CATS if isinstance(e, table[name])]
    if isinstance(e, EOFError):
        # not a documented category in general (so also 'Internal'); allowed where the specification names it
        return ['EOFError', 'Internal']
    return cats or ['Internal']
