"""Adversarial programs for C20: every public callable of the four classes, Array, Dtype and pack with
arguments of the documented types but arbitrary values, in sequences on one object, msb0 and lsb0."""
from .enc import NONE_I
from . import drivers as _d

INTS = [0, 1, -1, 2, -2, 7, 8, 9, -8, 63, 64, 65, 100, -100, 1000, 4097, -4097, 20000]
STRS = ['', '0b', '0x', '0b1', '0xf', '0o7', '0b12', '0xg', 'uint:8=3', 'uint:8', 'uint:-1=3', 'int:0=0', 'hex:3=a', 'ue=-1',
        'se', 'bool=2', 'float:17=1', 'foo', 'foo:8', '8', '-8', '2*uint:4=1', '0*(uint:8)', '3*', '*3', '(', ')', '2*(', ',,',
        'bits:5', 'bytes:2', 'pad:3', 'pad:-1', '>H', '<2h', '@l', '=', 'bin', 'hex', 'oct:7', 'uint:n', 'e4m3mxfp=nan',
        'e2m1mxfp=nan', 'bfloat=1e99', 'uintbe:12=1', '0b1, 0x', 'uint8=256', 'int8=-129', 'u', 'i8', 'b, h', 'bin, hex',
        'bytes', 'float:64', 'uint0', 'bits0', 'hex:0', 'int:0', ' uint : 8 = 3 ', 'uint:8=3,', 'ue, se, hex', 'hex, bin', 'mxint=1e9', 'e8m0mxfp=3', 'bits=5']
FLOATS = ['0.0', '-0.0', '1.5', 'inf', '-inf', 'nan', '1e308', '1e-320', '2.5', '-3.0']

METHODS = {
    'Bits': ['all', 'any', 'copy', 'count', 'cut', 'endswith', 'find', 'findall', 'join', 'pp', 'rfind', 'split', 'startswith',
             'tobitarray', 'tobytes', 'unpack', '__getitem__', '__add__', '__radd__', '__mul__', '__rmul__', '__and__', '__or__',
             '__xor__', '__lshift__', '__rshift__', '__invert__', '__eq__', '__ne__', '__contains__', '__iter__', '__copy__',
             'fromstring'],
    'BitArray': ['append', 'byteswap', 'clear', 'insert', 'invert', 'overwrite', 'prepend', 'replace', 'reverse', 'rol', 'ror',
                 'set', '__setitem__', '__delitem__', '__iadd__', '__imul__', '__ilshift__', '__irshift__', '__iand__', '__ior__',
                 '__ixor__'],
    'ConstBitStream': ['bytealign', 'peek', 'peeklist', 'read', 'readlist', 'readto'],
}
PROPS = ['bin', 'hex', 'oct', 'uint', 'int', 'bytes', 'float', 'bool', 'ue', 'se', 'uie', 'sie', 'uintle', 'intbe', 'bfloat',
         'len', 'length', 'bits', 'u8', 'i3', 'f32', 'hex4', 'uint7', 'e4m3mxfp', 'mxint', 'p3binary']
STREAM_PROPS = ['pos', 'bitpos', 'bytepos']
SETTABLE = ['bin', 'hex', 'oct', 'uint', 'int', 'bytes', 'float', 'ue', 'se', 'uie', 'sie', 'uintle', 'intbe', 'bfloat',
            'bits', 'u8', 'i3', 'f32', 'hex4', 'e4m3mxfp', 'mxint', 'p3binary', 'bool']


def a_int(rng, live):
    return ['i', rng.choice(INTS)]


def a_smallint(rng, live):
    return ['i', rng.choice([0, 1, 2, 3, -1, 5, 8])]


def a_optint(rng, live):
    return ['n'] if rng.random() < 0.3 else a_int(rng, live)


def a_bool(rng, live):
    return ['b', rng.randint(0, 1)]


def a_optbool(rng, live):
    return ['n'] if rng.random() < 0.4 else a_bool(rng, live)


def a_bits(rng, live):
    """anything that can be promoted to a bitstring: token strings (also malformed), objects, bytes, iterables"""
    r = rng.random()
    if r < 0.35:
        return ['s', rng.choice(STRS)]
    if r < 0.55 and live:
        return ['o', rng.choice([x for x in live if x[1] != 'Array'] or live)[0]]
    if r < 0.8:
        bits = _d.rand_bits(rng, rng.choice([0, 1, 3, 8, 9, 16]))
        return ['x', _d.lit_kind_for(rng, bits), bits]
    if r < 0.9:
        return ['y', [rng.randrange(256) for _ in range(rng.randint(0, 3))]]
    return ['l', _d.rand_bits(rng, rng.randint(0, 5))]


def a_fmt(rng, live):
    return ['s', rng.choice(STRS)]


def a_val(rng, live):
    return rng.choice([['i', 0], ['i', 1], ['b', 0], ['b', 1], ['i', 5], ['i', -1]])


def a_positer(rng, live):
    r = rng.random()
    if r < 0.3:
        return a_int(rng, live)
    if r < 0.7:
        return ['li', [rng.choice(INTS[:14]) for _ in range(rng.randint(0, 4))]]
    if r < 0.9:
        return ['r', rng.randint(-5, 5), rng.randint(-5, 12), rng.choice([1, 2, -1, 3])]
    return ['n']


def a_bitslist(rng, live):
    return ['lo', [a_bits(rng, live) for _ in range(rng.randint(0, 3))]]


def a_index(rng, live):
    if rng.random() < 0.5:
        return a_int(rng, live)
    return ['sl', rng.choice([None] + INTS[:12]), rng.choice([None] + INTS[:12]), rng.choice([None, 1, 2, -1, -2, 0, 7])]


def a_str(rng, live):
    return ['s', rng.choice([' ', '', ',', '_', 'ab', '\n'])]


def a_byteswapfmt(rng, live):
    return rng.choice([['n'], a_int(rng, live), ['li', [rng.choice([0, 1, 2, 3, -1]) for _ in range(rng.randint(0, 3))]],
                       ['s', rng.choice(['h', '2h', '>q', 'bB', 'x', '', '<', '3e', 'hh2'])]])


def a_intorfmt(rng, live):
    return a_int(rng, live) if rng.random() < 0.4 else a_fmt(rng, live)


def a_setvalue(rng, live):
    return a_bits(rng, live) if rng.random() < 0.6 else a_int(rng, live)


# documented parameter types of every public callable (positional order)
SIG = {
    'all': [a_val, a_positer], 'any': [a_val, a_positer], 'copy': [], 'count': [a_val],
    'cut': [a_int, a_optint, a_optint, a_optint], 'endswith': [a_bits, a_optint, a_optint],
    'startswith': [a_bits, a_optint, a_optint], 'find': [a_bits, a_optint, a_optint, a_optbool],
    'rfind': [a_bits, a_optint, a_optint, a_optbool], 'findall': [a_bits, a_optint, a_optint, a_optint, a_optbool],
    'join': [a_bitslist], 'pp': [a_fmt, a_int, a_str, a_bool], 'split': [a_bits, a_optint, a_optint, a_optint, a_optbool],
    'tobitarray': [], 'tobytes': [], 'unpack': [a_fmt], '__getitem__': [a_index], '__add__': [a_bits], '__radd__': [a_bits],
    '__mul__': [a_smallint], '__rmul__': [a_smallint], '__and__': [a_bits], '__or__': [a_bits], '__xor__': [a_bits],
    '__lshift__': [a_int], '__rshift__': [a_int], '__invert__': [], '__eq__': [a_bits], '__ne__': [a_bits],
    '__contains__': [a_bits], '__iter__': [], '__copy__': [], 'fromstring': [a_fmt],
    'append': [a_bits], 'byteswap': [a_byteswapfmt, a_optint, a_optint, a_bool], 'clear': [], 'insert': [a_bits, a_int],
    'invert': [a_positer], 'overwrite': [a_bits, a_int], 'prepend': [a_bits], 'replace': [a_bits, a_bits, a_optint, a_optint, a_optint, a_optbool],
    'reverse': [a_optint, a_optint], 'rol': [a_int, a_optint, a_optint], 'ror': [a_int, a_optint, a_optint],
    'set': [a_val, a_positer], '__setitem__': [a_index, a_setvalue], '__delitem__': [a_index], '__iadd__': [a_bits],
    '__imul__': [a_smallint], '__ilshift__': [a_int], '__irshift__': [a_int], '__iand__': [a_bits], '__ior__': [a_bits], '__ixor__': [a_bits],
    'bytealign': [], 'peek': [a_intorfmt], 'peeklist': [a_fmt], 'read': [a_intorfmt], 'readlist': [a_fmt], 'readto': [a_bits, a_optbool],
}


def rand_arg(rng, live):
    return rng.choice([a_int, a_bits, a_optint, a_bool, a_val])(rng, live)


def typed_args(rng, name, live):
    sig = SIG[name]
    # all required ones, a random number of the optional tail
    k = rng.randint(min(len(sig), 1 if sig and sig[0] in (a_bits, a_fmt, a_int, a_val, a_index, a_bitslist, a_intorfmt) else 0), len(sig))
    return [f(rng, live) for f in sig[:k]]


def methods_for(cls):
    m = list(METHODS['Bits'])
    if cls in ('BitArray', 'BitStream'):
        m += METHODS['BitArray']
    if cls in ('ConstBitStream', 'BitStream'):
        m += METHODS['ConstBitStream']
    return m


def adversarial_program(rng, lsb0=False):
    calls = []
    if lsb0:
        calls.append(_d.setopt('lsb0', 1))
    live = []
    for i in range(rng.randint(1, 3)):
        cls = rng.choice(_d.CLASSES)
        oid = 'o%d' % i
        calls.append(_d.rand_mk(rng, oid, cls=cls, n=rng.choice([0, 1, 5, 8, 16, 17, 33])))
        live.append((oid, cls))
    for _ in range(rng.randint(6, 16)):
        oid, cls = rng.choice(live)
        r = rng.random()
        if r < 0.55:
            name = rng.choice(methods_for(cls))
            call = {'op': 'rawcall', 't': oid, 'sa': ['method', name], 'raw': typed_args(rng, name, live)}
        elif r < 0.65:
            pr = rng.choice(PROPS + (STREAM_PROPS if cls in _d.STREAMS else []))
            call = {'op': 'rawcall', 't': oid, 'sa': ['getattr', pr]}
        elif r < 0.75 and (cls in _d.MUTABLE or cls in _d.STREAMS):
            # property assignment: value properties on the mutable classes, position properties on streams
            if cls in _d.MUTABLE and rng.random() < 0.7:
                pr = rng.choice(SETTABLE)
                val = {'bin': a_fmt, 'hex': a_fmt, 'oct': a_fmt, 'bytes': lambda r, l: ['y', [1, 2]], 'bits': a_bits}.get(pr.rstrip('0123456789'), None)
                arg = val(rng, live) if val else rng.choice([a_int(rng, live), ['f', rng.choice(FLOATS)]] if pr.startswith(('float', 'f3', 'bfloat', 'e4', 'mxint', 'p3')) else [a_int(rng, live)])
            else:
                pr = rng.choice(STREAM_PROPS) if cls in _d.STREAMS else 'uint'
                arg = a_int(rng, live)
            call = {'op': 'rawcall', 't': oid, 'sa': ['setattr', pr], 'raw': [arg]}
        elif r < 0.85:
            kw = {}
            ccls = rng.choice(_d.CLASSES)
            positional = []
            if rng.random() < 0.5:
                positional = [rng.choice([a_bits, a_int])(rng, live)]
            else:
                k = rng.choice(['bin', 'hex', 'oct', 'uint', 'int', 'bytes', 'float', 'bool', 'ue', 'se', 'bits', 'uintle', 'bfloat', 'e4m3mxfp'])
                kw[k] = {'bin': a_fmt, 'hex': a_fmt, 'oct': a_fmt, 'bytes': lambda r, l: ['y', [7, 8, 9]], 'bits': a_bits,
                         'float': lambda r, l: ['f', r.choice(FLOATS)], 'bfloat': lambda r, l: ['f', r.choice(FLOATS)],
                         'e4m3mxfp': lambda r, l: ['f', r.choice(FLOATS)], 'bool': a_bool}.get(k, a_int)(rng, live)
            if rng.random() < 0.5:
                kw[rng.choice(['length', 'offset'] + (['pos'] if ccls in _d.STREAMS else []))] = ['i', rng.choice(INTS)]
            call = {'op': 'rawcall', 'sa': ['ctor', ccls], 'raw': positional, 'rawkw': kw}
        elif r < 0.9:
            call = {'op': 'rawcall', 'sa': ['func', 'pack'], 'raw': [['s', rng.choice(STRS)]] + [rng.choice([a_int, a_bits, a_bool])(rng, live) for _ in range(rng.randint(0, 3))]}
        elif r < 0.95:
            call = {'op': 'rawcall', 'sa': ['ctor', 'Dtype'], 'raw': [['s', rng.choice(STRS + ['uint', 'hex', 'float', 'bool', 'bytes', 'ue'])]]
                    + ([['i', rng.choice(INTS)]] if rng.random() < 0.6 else []),
                    'rawkw': ({'scale': rng.choice([a_int(rng, live), ['f', rng.choice(FLOATS)]])} if rng.random() < 0.3 else {})}
        else:
            call = {'op': 'rawcall', 't': oid, 'sa': ['str', rng.choice(['str', 'repr', 'bytes', 'len', 'bool', 'hash', 'list'])]}
        calls.append(call)
        # every so often a well-understood call, so that corruption shows up against the full specification
        if rng.random() < 0.2:
            calls.append({'op': 'len', 't': oid})
            calls.append({'op': 'getslice', 't': oid, 'ia': [NONE_I, NONE_I, NONE_I]})
    return {'calls': calls}


ARRAY_METHODS = ['append', 'byteswap', 'count', 'extend', 'insert', 'pop', 'pp', 'reverse', 'tobytes', 'tolist', 'equals', 'astype',
                 '__getitem__', '__setitem__', '__delitem__', '__add__', '__sub__', '__mul__', '__floordiv__', '__truediv__',
                 '__mod__', '__lshift__', '__rshift__', '__and__', '__or__', '__xor__', '__iadd__', '__imul__', '__neg__', '__abs__',
                 '__lt__', '__eq__', '__len__', '__iter__', '__copy__']


ARITH = ('__add__', '__sub__', '__mul__', '__floordiv__', '__truediv__', '__mod__', '__lshift__', '__rshift__', '__iadd__',
         '__imul__', '__neg__', '__abs__', '__lt__')


def array_args(rng, mname, live):
    ival = lambda: rng.choice([['i', rng.choice(INTS[:16])], ['f', rng.choice(FLOATS)]])
    if mname in ('byteswap', 'reverse', 'tobytes', 'tolist', '__neg__', '__abs__', '__len__', '__iter__', '__copy__'):
        return []
    if mname in ('append', 'count', '__add__', '__sub__', '__mul__', '__floordiv__', '__truediv__', '__mod__', '__iadd__', '__imul__',
                 '__lt__', '__eq__'):
        return [ival()]
    if mname in ('__lshift__', '__rshift__'):
        return [['i', rng.choice([0, 1, 2, 8, -1, 100])]]
    if mname in ('__and__', '__or__', '__xor__'):
        return [a_bits(rng, [])]
    if mname == 'extend':
        return [['li', [rng.choice(INTS[:12]) for _ in range(rng.randint(0, 3))]]]
    if mname == 'insert':
        return [a_int(rng, live), ival()]
    if mname == 'pop':
        return [a_int(rng, live)] if rng.random() < 0.7 else []
    if mname == '__getitem__' or mname == '__delitem__':
        return [a_index(rng, live)]
    if mname == '__setitem__':
        return [a_int(rng, live), ival()] if rng.random() < 0.6 else [a_index(rng, live), ['li', [rng.choice(INTS[:8]) for _ in range(rng.randint(0, 3))]]]
    if mname == 'pp':
        return [a_fmt(rng, live), a_int(rng, live)]
    if mname == 'astype':
        return [['s', rng.choice(['uint8', 'int4', 'float16', 'hex2', 'foo', 'uint', 'ue', 'float32', 'bool'])]]
    if mname == 'equals':
        return [['o', 'a']] if rng.random() < 0.5 else [ival()]
    return []


def adversarial_array_program(rng, lsb0=False):
    from . import arrayprogs
    from .enc import enc_int
    name, n = rng.choice(arrayprogs.DTYPES)
    items = [arrayprogs.item_value(rng, name, n) for _ in range(rng.randint(0, 4))]
    calls = ([_d.setopt('lsb0', 1)] if lsb0 else []) + [{'op': 'anew', 'rid': 'a', 'sa': [name, 'list'], 'ia': [n, 0], 'va': items}]
    live = [('a', 'Array')]
    for _ in range(rng.randint(5, 12)):
        r = rng.random()
        if r < 0.7:
            mname = rng.choice(ARRAY_METHODS)
            # arithmetic is documented for integer and float dtypes only
            if name in ('bits', 'hex', 'bin', 'oct', 'bytes', 'bool') and mname in ARITH:
                mname = rng.choice(['tolist', 'reverse', '__getitem__', 'pop', 'count'])
            calls.append({'op': 'rawcall', 't': 'a', 'sa': ['method', mname], 'raw': array_args(rng, mname, live)})
        elif r < 0.8:
            if rng.random() < 0.6:
                newdt = rng.choice(STRS + ['uint8', 'int4', 'float16', 'hex2', 'bytes2'])
                calls.append({'op': 'rawcall', 't': 'a', 'sa': ['setattr', 'dtype'], 'raw': [['s', newdt]]})
                # from here on the items may no longer be numbers (unless the new dtype is plainly numeric, or the
                # assignment is refused and the old dtype stays): arithmetic is then no longer well-typed use
                if newdt not in ('uint8', 'int4', 'float16') or name in ('bits', 'hex', 'bin', 'oct', 'bytes', 'bool'):
                    name = 'bits'
            else:
                calls.append({'op': 'rawcall', 't': 'a', 'sa': ['setattr', 'data'],
                              'raw': [['x', 'BitArray', _d.rand_bits(rng, rng.choice([0, 3, 8, 16, 17]))]]})
        elif r < 0.9:
            calls.append({'op': 'rawcall', 'sa': ['ctor', 'Array'], 'raw': [['s', rng.choice(STRS + ['uint8', 'int4', 'float16', '>H'])], rand_arg(rng, live)]})
        else:
            calls.append({'op': 'rawcall', 't': 'a', 'sa': ['str', rng.choice(['str', 'repr', 'len', 'list'])]})
        if rng.random() < 0.25:
            calls.append({'op': 'alen', 't': 'a'})
            calls.append({'op': 'atolist', 't': 'a'})
    return {'calls': calls}
