"""Programs for Array (C14): list operations and element-wise operators over one contiguous buffer."""
from .enc import NONE_I, enc_int, enc_float
from . import drivers as _d
from .fmtprogs import rand_value_for
from .codecprogs import interesting_float

# (dtype name, length in units)
DTYPES = [('uint', 1), ('uint', 3), ('uint', 8), ('uint', 12), ('int', 2), ('int', 5), ('int', 8), ('int', 16), ('u', 7), ('i', 9),
          ('uint', 33), ('int', 65), ('uintbe', 16), ('intle', 16), ('uintne', 24), ('intbe', 8), ('hex', 4), ('hex', 12),
          ('bin', 3), ('oct', 6), ('bool', 1), ('float', 16), ('float', 32), ('float', 64), ('floatle', 32), ('bfloat', 16),
          ('e4m3mxfp', 8), ('e5m2mxfp', 8), ('e3m2mxfp', 6), ('e2m1mxfp', 4), ('p4binary', 8), ('p3binary', 8), ('mxint', 8),
          ('bytes', 1), ('bytes', 3), ('bits', 5)]
SMALL_INT = [('uint', 3), ('uint', 8), ('uint', 12), ('int', 5), ('int', 8), ('int', 12), ('int', 16), ('uint', 16)]
STRUCT_CODES = {'b': ('int', 8), 'B': ('uint', 8), 'h': ('int', 16), 'H': ('uint', 16), 'i': ('int', 32), 'I': ('uint', 32),
                'l': ('int', 32), 'L': ('uint', 32), 'q': ('int', 64), 'Q': ('uint', 64), 'e': ('float', 16), 'f': ('float', 32),
                'd': ('float', 64)}


def item_value(rng, name, n):
    if name in ('float', 'floatle', 'bfloat', 'e4m3mxfp', 'e5m2mxfp', 'e3m2mxfp', 'e2m3mxfp', 'e2m1mxfp', 'p4binary', 'p3binary', 'mxint'):
        if rng.random() < 0.85:
            f = rng.choice([0.0, 1.0, -1.0, 0.5, 1.5, 2.0, -2.0, 3.0, 0.25, -0.0, 6.0, 1.75])
        else:
            f = interesting_float(rng)
            if f != f:
                f = 1.0
        return enc_float(f)
    nbits = n * (8 if name == 'bytes' else 1)
    return rand_value_for(rng, name, n if name != 'bits' else n)


def bad_value(rng, name, n):
    if name in ('uint', 'int', 'u', 'i', 'uintbe', 'intle', 'uintne', 'intbe'):
        return enc_int(rng.choice([1 << (n + 1), -(1 << (n + 1))]))
    if name in ('hex', 'oct', 'bin'):
        return item_value(rng, name, n) + [1]
    if name == 'bytes':
        return [7] + [1] * (n + 1)
    return None


def array_program(rng):
    name, n = rng.choice(DTYPES)
    if rng.random() < 0.03:
        # a dtype without any bits per item cannot make an Array (refused; nothing is created)
        zname = rng.choice(['uint', 'int', 'hex', 'bin', 'bits', 'bytes', 'oct'])
        return {'calls': [{'op': 'anew', 'rid': 'a', 'sa': [zname, rng.choice(['list', 'extend'])], 'ia': [0, rng.randint(0, 2)], 'va': []},
                          {'op': 'anew', 'rid': 'b', 'sa': [name, 'list'], 'ia': [n, 0], 'va': []},
                          {'op': 'asetdtype', 't': 'b', 'sa': [zname], 'ia': [0]}, {'op': 'alen', 't': 'b'}]}
    k = rng.choice([0, 1, 2, 3, 4, 5, 7])
    items = [item_value(rng, name, n) for _ in range(k)]
    unit = 8 if name == 'bytes' else 1
    w = n * unit
    calls = []
    tr = _d.rand_bits(rng, rng.randint(1, max(1, w - 1))) if (w > 1 and rng.random() < 0.3) else []
    mk = {'op': 'anew', 'rid': 'a', 'sa': [name, rng.choice(['list', 'tuple', 'iter', 'extend'])], 'ia': [n, rng.randint(0, 2)], 'va': items}
    if tr:
        mk['xs'] = [_d.lit('bin', tr)]
    calls.append(mk)
    for _ in range(rng.randint(4, 10)):
        r = rng.random()
        v = item_value(rng, name, n)
        if r < 0.08:
            calls.append({'op': rng.choice(['alen', 'atolist', 'aiter', 'atrailing', 'aitemsize', 'atobytes', 'atofile', 'adata']), 't': 'a'})
        elif r < 0.16:
            calls.append({'op': 'agetitem', 't': 'a', 'ia': [_d.rand_index(rng, k)]})
        elif r < 0.26:
            calls.append({'op': 'agetslice', 't': 'a', 'rid': 's',
                          'ia': [_d.rand_opt_index(rng, k), _d.rand_opt_index(rng, k), _d.rand_step(rng, k)]})
        elif r < 0.36:
            bv = bad_value(rng, name, n)
            calls.append({'op': 'asetitem', 't': 'a', 'ia': [_d.rand_index(rng, k)],
                          'va': [bv if (bv is not None and rng.random() < 0.15) else v]})
        elif r < 0.46:
            a, b, st = _d.rand_opt_index(rng, k), _d.rand_opt_index(rng, k), _d.rand_step(rng, k)
            if st in (NONE_I, 1):
                cnt = rng.randint(0, 3)
            else:
                cnt = len(range(*slice(None if a == NONE_I else a, None if b == NONE_I else b, st).indices(k))) if st != 0 else 1
                if rng.random() < 0.15:
                    cnt += 1
            vals = [item_value(rng, name, n) for _ in range(cnt)]
            bv = bad_value(rng, name, n)
            if vals and bv is not None and rng.random() < 0.1:
                vals[-1] = bv
            calls.append({'op': 'asetslice', 't': 'a', 'ia': [a, b, st], 'va': vals})
        elif r < 0.52:
            calls.append({'op': 'adelitem', 't': 'a', 'ia': [_d.rand_index(rng, k)]})
        elif r < 0.58:
            calls.append({'op': 'adelslice', 't': 'a', 'ia': [_d.rand_opt_index(rng, k), _d.rand_opt_index(rng, k), _d.rand_step(rng, k)]})
        elif r < 0.64:
            calls.append({'op': 'aappend', 't': 'a', 'va': [v]})
        elif r < 0.69:
            calls.append({'op': 'aextend', 't': 'a', 'va': [item_value(rng, name, n) for _ in range(rng.randint(0, 3))]})
        elif r < 0.76:
            calls.append({'op': 'ainsert', 't': 'a', 'ia': [_d.rand_index(rng, k)], 'va': [v]})
        elif r < 0.82:
            calls.append({'op': 'apop', 't': 'a', 'ia': [rng.choice([NONE_I, NONE_I, _d.rand_index(rng, k)])]})
        elif r < 0.85:
            calls.append({'op': 'areverse', 't': 'a'})
        elif r < 0.89:
            calls.append({'op': 'acount', 't': 'a', 'va': [rng.choice(items + [v]) if items else v]})
        elif r < 0.92:
            calls.append({'op': 'acopy', 't': 'a', 'rid': 'c', 'sa': [rng.choice(['copy', 'slice'])]})
            calls.append({'op': 'aequals', 't': 'a', 'xs': [_d.ref('c')]})
            calls.append({'op': 'aappend', 't': 'c', 'va': [v]})
        elif r < 0.96:
            n2name, n2 = rng.choice(DTYPES)
            calls.append({'op': 'asetdtype', 't': 'a', 'sa': [n2name], 'ia': [n2, rng.randint(0, 2)]})
            calls.append({'op': 'atolist', 't': 'a'})
            calls.append({'op': 'asetdtype', 't': 'a', 'sa': [name], 'ia': [n, rng.randint(0, 2)]})
        else:
            calls.append({'op': 'abyteswap', 't': 'a'})
    return {'calls': calls}


def array_op_program(rng):
    """element-wise operators on small integer Arrays (results computed by TLC), comparisons, bit-wise ops"""
    name, n = rng.choice(SMALL_INT)
    signed = name == 'int'
    lo, hi = (-(1 << (n - 1)), (1 << (n - 1)) - 1) if signed else (0, (1 << n) - 1)
    k = rng.randint(0, 5)
    items = [enc_int(rng.choice([lo, hi, 0, 1, rng.randint(lo, hi), rng.randint(max(lo, -9), min(hi, 9))])) for _ in range(k)]
    calls = [{'op': 'anew', 'rid': 'a', 'sa': [name, 'list'], 'ia': [n, 0], 'va': items}]
    for _ in range(rng.randint(3, 8)):
        r = rng.random()
        y = rng.choice([0, 1, 2, 3, -1, -2, 5, 7, 10, 64])
        if r < 0.35:
            opn = rng.choice(['add', 'sub', 'mul', 'floordiv', 'mod', 'lshift', 'rshift'])
            if opn in ('lshift', 'rshift'):
                y = rng.choice([0, 1, 2, 3, 8])
            if opn in ('floordiv', 'mod'):
                y = rng.choice([0, 1, 2, 3, 7])
            calls.append({'op': 'aop', 't': 'a', 'rid': 'r', 'sa': [opn], 'va': [enc_int(y)]})
        elif r < 0.6:
            opn = rng.choice(['add', 'sub', 'mul', 'floordiv', 'mod', 'lshift', 'rshift'])
            if opn in ('lshift', 'rshift'):
                y = rng.choice([0, 1, 2, 8])
            if opn in ('floordiv', 'mod'):
                y = rng.choice([0, 1, 2, 3])
            calls.append({'op': 'aiop', 't': 'a', 'sa': [opn], 'va': [enc_int(y)]})
            calls.append({'op': 'atolist', 't': 'a'})
        elif r < 0.72:
            calls.append({'op': 'acmp', 't': 'a', 'rid': 'b', 'sa': [rng.choice(['lt', 'gt', 'le', 'ge', 'eq', 'ne'])], 'va': [enc_int(y)]})
        elif r < 0.8:
            calls.append({'op': 'aunary', 't': 'a', 'rid': 'u', 'sa': [rng.choice(['neg', 'abs'])]})
        elif r < 0.9:
            x = _d.rand_bits(rng, n if rng.random() < 0.9 else n + 1)
            calls.append({'op': 'abitop', 't': 'a', 'rid': 'm', 'sa': [rng.choice(['and', 'or', 'xor']), rng.choice(['inplace', 'new'])],
                          'xs': [_d.lit(_d.lit_kind_for(rng, x, allow_obj=False), x)]})
        else:
            name2, n2 = rng.choice(SMALL_INT)
            lo2, hi2 = (-(1 << (n2 - 1)), (1 << (n2 - 1)) - 1) if name2 == 'int' else (0, (1 << n2) - 1)
            k2 = k if rng.random() < 0.85 else k + 1
            calls.append({'op': 'anew', 'rid': 'b2', 'sa': [name2, 'list'], 'ia': [n2, 0],
                          'va': [enc_int(rng.randint(max(lo2, -20), min(hi2, 20))) for _ in range(k2)]})
            calls.append({'op': 'aopa', 't': 'a', 'rid': 'r2', 'sa': [rng.choice(['add', 'sub', 'mul'])], 'xs': [_d.ref('b2')]})
            if rng.random() < 0.5:
                calls.append({'op': 'aextendarr', 't': 'a', 'xs': [_d.ref('b2')]})
    return {'calls': calls}


def array_struct_program(rng):
    """struct-code Arrays and array.array interchange (C18 part of Array)"""
    calls = []
    for _ in range(rng.randint(2, 4)):
        code = rng.choice(list(STRUCT_CODES))
        kind, bits = STRUCT_CODES[code]
        prefix = rng.choice(['>', '<', '='])
        name = kind if bits == 8 else ({'>': kind + 'be', '<': kind + 'le', '=': kind + 'le'}[prefix] if kind != 'float' else {'>': 'float', '<': 'floatle', '=': 'floatle'}[prefix])
        if kind == 'float':
            vals = [enc_float(rng.choice([0.0, -0.0, 1.5, -2.25, 65504.0, 1e-7, float('inf'), 3.0])) for _ in range(rng.randint(0, 4))]
        else:
            lo, hi = (-(1 << (bits - 1)), (1 << (bits - 1)) - 1) if kind == 'int' else (0, (1 << bits) - 1)
            vals = [enc_int(rng.choice([lo, hi, 0, 1, rng.randint(lo, hi)])) for _ in range(rng.randint(0, 4))]
        # the Array dtype is given by its struct spelling through the runner's 'structcode' style
        calls.append({'op': 'anew', 'rid': 'a', 'sa': [name, 'list', prefix + code], 'ia': [bits, 9], 'va': vals, 'drop': ['*']})
        calls.append({'op': 'atobytes', 't': 'a'})
        calls.append({'op': 'atolist', 't': 'a'})
        if bits % 8 == 0 and bits > 8:
            calls.append({'op': 'abyteswap', 't': 'a'})
            calls.append({'op': 'atolist', 't': 'a'})
            calls.append({'op': 'abyteswap', 't': 'a'})
            calls.append({'op': 'atobytes', 't': 'a'})
        # array.array of some typecode into an Array of this dtype: accepted only for equal kind and width
        tc = rng.choice(list('bBhHiIqQfdlL'))
        tkind, tbits = STRUCT_CODES[tc]
        if tc in 'lL':
            tbits = 64
        if tkind == 'float':
            tvals = [enc_float(rng.choice([0.0, 1.5, -2.25])) for _ in range(rng.randint(0, 3))]
        else:
            tlo, thi = (-(1 << (tbits - 1)), (1 << (tbits - 1)) - 1) if tkind == 'int' else (0, (1 << tbits) - 1)
            tvals = [enc_int(rng.choice([tlo, thi, 0, 1, 258])) if tbits > 8 else enc_int(rng.choice([tlo, thi, 0, 1])) for _ in range(rng.randint(0, 3))]
        calls.append({'op': 'afromarray', 'rid': 'f', 'sa': [name, tc, rng.choice(['ctor', 'extend'])], 'ia': [bits], 'va': tvals})
        calls.append({'op': 'atolist', 't': 'f'})
    return {'calls': calls}


MINI_W = {'e4m3mxfp': 8, 'e5m2mxfp': 8, 'e3m2mxfp': 6, 'e2m3mxfp': 6, 'e2m1mxfp': 4, 'p4binary': 8, 'p3binary': 8, 'mxint': 8}


def scaled_array_program(rng):
    """Arrays over scaled dtypes (power-of-two scales), interleaved with unscaled Arrays of the same dtype name and
    length that are given the same values: every Array must encode with its own scale and range-check on its own."""
    calls = []
    for _ in range(rng.randint(2, 4)):
        name = rng.choice(['uint', 'int', 'uint', 'int', 'float', 'e4m3mxfp', 'e5m2mxfp', 'e3m2mxfp', 'e2m1mxfp', 'mxint', 'bfloat'])
        if name in ('uint', 'int'):
            n = rng.choice([8, 8, 12, 16])
            k = rng.choice([1, 2, 3, 4])
            lim = (1 << n) if name == 'uint' else (1 << (n - 1))
            vals = []
            for _ in range(rng.randint(1, 4)):
                v = rng.choice([rng.randrange(lim), lim - 1, lim >> 1, rng.randrange(lim)]) << k     # fits with the scale only
                if rng.random() < 0.4:
                    v = rng.randrange(lim)
                    v -= v % (1 << k)                                                                # fits either way
                if name == 'int' and rng.random() < 0.5:
                    v = -v
                vals.append(v)
            items = [enc_int(v) for v in vals]
        else:
            n = MINI_W.get(name, 16 if name == 'bfloat' else rng.choice([16, 32, 64]))
            k = rng.choice([-6, -2, -1, 1, 2, 5, 9])
            items = [enc_float(rng.choice([0.0, -0.0, 1.0, -1.5, 3.0, 0.375, 448.0, 500.0, 6.0, 7.5, 28.0, 57344.0, 1e5,
                                           -1e5, float('inf'), rng.uniform(-300, 300), rng.uniform(-2, 2)]))
                     for _ in range(rng.randint(1, 4))]
        how = rng.choice(['list', 'append', 'extend', 'setitem'])
        calls.append({'op': 'ascaled', 'sa': [name, how], 'ia': [n, k], 'va': items, 'drop': ['r*']})
        # the same values in an Array of the same dtype without a scale / with another scale
        for it in items[:2]:
            r = rng.random()
            if r < 0.5:
                calls.append({'op': 'anew', 'rid': 'u', 'sa': [name, 'list'], 'ia': [n, 0], 'va': [it], 'drop': ['*']})
            elif r < 0.8:
                calls.append({'op': 'anew', 'rid': 'u', 'sa': [name, 'list'], 'ia': [n, 0], 'va': [enc_int(0) if name in ('uint', 'int') else enc_float(0.0)], 'drop': ['*']})
                calls.append({'op': rng.choice(['aappend', 'asetitem', 'ainsert']), 't': 'u', 'ia': [0], 'va': [it]})
                calls.append({'op': 'atolist', 't': 'u'})
            else:
                calls.append({'op': 'ascaled', 'sa': [name, how], 'ia': [n, k + 1], 'va': [it], 'drop': ['r*']})
    return {'calls': calls}


def array_memo_program(rng):
    """One Array encoding equal-comparing values that need different codes: 0.0 and -0.0 in either order, and the same
    out-of-range value before and after options.mxfp_overflow changes (any per-Array or per-dtype memo must key on both)."""
    name = rng.choice(['e4m3mxfp', 'e5m2mxfp', 'e3m2mxfp', 'e2m3mxfp', 'e2m1mxfp', 'bfloat', 'float', 'p3binary', 'p4binary', 'mxint'])
    n = MINI_W.get(name, 16)
    z = [0.0, -0.0] if rng.random() < 0.5 else [-0.0, 0.0]
    extra = [rng.choice([1.0, -1.0, 0.5, 2.0])]
    vals = z + extra + [z[0], z[1]]
    rng.shuffle(extra)
    calls = [{'op': 'anew', 'rid': 'a', 'sa': [name, rng.choice(['list', 'extend', 'iter'])], 'ia': [n, 0], 'va': [enc_float(v) for v in vals]},
             {'op': 'adata', 't': 'a'}, {'op': 'atolist', 't': 'a'}]
    big = rng.choice([1e6, -1e6, 500.0, -460.0, 60000.0, float('inf'), float('-inf'), 7.0, 30.0])
    calls.append({'op': 'anew', 'rid': 'b', 'sa': [name, 'list'], 'ia': [n, 0], 'va': []})
    mx = 0
    for _ in range(rng.randint(3, 5)):
        how = rng.choice(['aappend', 'ainsert', 'aextend'])
        if how == 'aappend':
            calls.append({'op': 'aappend', 't': 'b', 'va': [enc_float(big)]})
        elif how == 'ainsert':
            calls.append({'op': 'ainsert', 't': 'b', 'ia': [0], 'va': [enc_float(big)]})
        else:
            calls.append({'op': 'aextend', 't': 'b', 'va': [enc_float(big), enc_float(-big)]})
        if rng.random() < 0.7:
            mx = 1 - mx
            calls.append(_d.setopt('mx', mx))
    calls.append({'op': 'adata', 't': 'b'})
    calls.append({'op': 'atolist', 't': 'b'})
    return {'calls': calls}


INT_DT = [('uint', 3), ('uint', 8), ('uint', 12), ('int', 5), ('int', 8), ('int', 16), ('uintbe', 16), ('intle', 16), ('uintne', 24), ('uint', 33)]
FLOAT_DT = [('float', 16), ('float', 32), ('float', 64), ('floatle', 32), ('bfloat', 16), ('e4m3mxfp', 8), ('e5m2mxfp', 8), ('e3m2mxfp', 6),
            ('e2m3mxfp', 6), ('e2m1mxfp', 4), ('p4binary', 8), ('p3binary', 8), ('mxint', 8)]


def array_convert_program(rng):
    """astype between dtypes of the same kind of value, fromfile with every n around what the file holds, and the
    attributes of the dtypes involved"""
    calls = []
    for _ in range(rng.randint(2, 4)):
        fam = INT_DT if rng.random() < 0.5 else FLOAT_DT
        name, n = rng.choice(fam)
        k = rng.randint(0, 5)
        items = [item_value(rng, name, n) if fam is FLOAT_DT else rand_value_for(rng, name, n) for _ in range(k)]
        mk = {'op': 'anew', 'rid': 'a', 'sa': [name, 'list'], 'ia': [n, rng.randint(0, 2)], 'va': items, 'drop': ['*']}
        if rng.random() < 0.25 and n > 1:
            mk['xs'] = [_d.lit('bin', _d.rand_bits(rng, rng.randint(1, n - 1)))]
        calls.append(mk)
        calls.append({'op': 'dtypeinfo', 'sa': [name], 'ia': [n, rng.randint(0, 2)]})
        for _ in range(rng.randint(1, 3)):
            name2, n2 = rng.choice(fam if rng.random() < 0.9 else INT_DT + FLOAT_DT)
            calls.append({'op': 'aastype', 't': 'a', 'rid': 'b', 'sa': [name2], 'ia': [n2, rng.randint(0, 2)]})
            if rng.random() < 0.5:
                calls.append({'op': 'atolist', 't': 'b'})
        # fromfile
        nbytes = rng.choice([0, 1, 2, 3, 4, 6, 8, 9])
        src = _d.rand_bits(rng, 8 * nbytes)
        avail = (8 * nbytes) // n
        want = rng.choice([NONE_I, 0, 1, avail, avail, max(0, avail - 1), avail + 1, avail + 3])
        # (an empty real file cannot be memory mapped by Bits(f); the empty source goes through BytesIO)
        calls.append({'op': 'afromfile', 't': 'a', 'sa': [rng.choice(['path', 'bytesio']) if nbytes else 'bytesio'], 'ia': [want],
                      'xs': [_d.lit('bin', src)]})
        calls.append({'op': 'atolist', 't': 'a'})
    for _ in range(rng.randint(1, 4)):
        name = rng.choice(['uint', 'int', 'u', 'i', 'uintbe', 'intle', 'uintne', 'intne', 'float', 'floatle', 'floatne', 'f', 'bfloat',
                           'hex', 'h', 'oct', 'o', 'bin', 'b', 'bytes', 'bool', 'bits', 'ue', 'se', 'uie', 'sie', 'p3binary',
                           'p4binary', 'e4m3mxfp', 'e5m2mxfp', 'e3m2mxfp', 'e2m3mxfp', 'e2m1mxfp', 'e8m0mxfp', 'mxint'])
        n = rng.choice([NONE_I, NONE_I, 0, 1, 3, 4, 6, 8, 12, 16, 24, 32, 64, 65, -1])
        calls.append({'op': 'dtypeinfo', 'sa': [name], 'ia': [n, rng.randint(0, 2) if n != NONE_I and n >= 0 else 0]})
    return {'calls': calls}


def array_float_op_program(rng):
    """element-wise arithmetic with scalars on float-valued Arrays (results of Python's float arithmetic are oracle
    inputs; the encoding into the dtype, failure atomicity and the dtype of the result are judged)"""
    calls = []
    name, n = rng.choice(FLOAT_DT)
    k = rng.choice([0, 1, 2, 3, 5])
    items = [item_value(rng, name, n) for _ in range(k)]
    mk = {'op': 'anew', 'rid': 'a', 'sa': [name, 'list'], 'ia': [n, rng.randint(0, 2)], 'va': items}
    if rng.random() < 0.2 and n > 1:
        mk['xs'] = [_d.lit('bin', _d.rand_bits(rng, rng.randint(1, n - 1)))]
    calls.append(mk)
    for _ in range(rng.randint(3, 7)):
        opn = rng.choice(['add', 'sub', 'mul', 'truediv', 'floordiv', 'mod', 'mul', 'add'])
        y = rng.choice([0, 1, 2, -1, 3, 0.5, -0.25, 2.0, 1e3, 1e-3, 0.0, 7, 1e30, -3.5, 1e300])
        val = enc_int(y) if isinstance(y, int) else enc_float(y)
        if rng.random() < 0.6:
            calls.append({'op': 'aopf', 't': 'a', 'rid': 'r', 'sa': [opn], 'va': [val]})
            if rng.random() < 0.3:
                calls.append({'op': 'atolist', 't': 'r'})
        else:
            calls.append({'op': 'aiopf', 't': 'a', 'sa': [opn], 'va': [val]})
            calls.append({'op': 'adata', 't': 'a'})
    # Array op Array: a second Array of a float-valued or integer dtype, of the same or another length
    for _ in range(rng.randint(1, 3)):
        name2, n2 = rng.choice(FLOAT_DT + FLOAT_DT + INT_DT[:7])
        k2 = k if rng.random() < 0.85 else k + 1
        items2 = [item_value(rng, name2, n2) if (name2, n2) in FLOAT_DT else rand_value_for(rng, name2, n2) for _ in range(k2)]
        calls.append({'op': 'anew', 'rid': 'b', 'sa': [name2, 'list'], 'ia': [n2, rng.randint(0, 2)], 'va': items2})
        calls.append({'op': 'alen', 't': 'a'})
        opn = rng.choice(['add', 'sub', 'mul', 'truediv', 'floordiv', 'mod'])
        if rng.random() < 0.5:
            calls.append({'op': 'aopaf', 't': 'a', 'rid': 'r', 'sa': [opn], 'xs': [_d.ref('b')]})
        else:
            calls.append({'op': 'aopaf', 't': 'b', 'rid': 'r', 'sa': [opn], 'xs': [_d.ref('a')]})
    return {'calls': calls}
