"""pytest plugin: records the public calls the repository's own tests make on Bits / BitArray / ConstBitStream /
BitStream objects as a trace for spec/Trace.tla (events `extcall` / `extsee` / `setopt`).

Loaded from outside the repository (`-p harness.tracer_plugin` with /verif on sys.path); nothing in /repo is changed.
The arguments of these calls are arbitrary Python values, so the specification does not judge *results*; it judges
what must hold of every call whatever its arguments (the C20 envelope and the C03 / C04 frame):

  * len(s) == len(s.bin) and 0 <= pos <= len for every tracked object after the call,
  * no Bits / ConstBitStream ever changes value,
  * a call changes at most the object it was made on (its bitstring arguments and every other tracked object of
    the test keep their value and position),
  * the bit-numbering / alignment / overflow options are not changed by a call on a bitstring,
  * an object the call returns is what its own projection says.

One program (tid) per test.  Objects are tracked from the first time they take part in a call until the test ends
(strong references are kept so that ids are not reused).  Changes made between calls (property assignment, generators
advancing) are resynchronised with an unjudged `extsee` event.  Only outermost calls are logged.
Environment: VERIF_TRACE_OUT (ndjson path), VERIF_TRACE_MAXBITS (default 4096), VERIF_TRACE_MAXOBJS (default 12),
VERIF_TRACE_MAXEVENTS per test (default 300).
"""
import json
import os
import sys

VERIF = os.path.dirname(os.path.dirname(os.path.abspath(__file__)))
if VERIF not in sys.path:
    sys.path.insert(0, VERIF)

from harness import enc  # noqa: E402
from harness.world import OPS  # noqa: E402   (the hints with which results are encoded)

OUT = os.environ.get('VERIF_TRACE_OUT')
MAXBITS = int(os.environ.get('VERIF_TRACE_MAXBITS', '4096'))
MAXOBJS = int(os.environ.get('VERIF_TRACE_MAXOBJS', '12'))
FULL = os.environ.get('VERIF_TRACE_FULL', '1') == '1'     # map simple calls onto fully specified ones
MAXEVENTS = int(os.environ.get('VERIF_TRACE_MAXEVENTS', '300'))     # per test; the rest of a longer test runs untraced

SKIP = {'__init__', '__new__', '__class__', '__getattribute__', '__setattr__', '__delattr__', '__dir__', '__sizeof__',
        '__reduce__', '__reduce_ex__', '__init_subclass__', '__subclasshook__', '__format__', '__getstate__',
        '__class_getitem__', '__del__'}


NONE_I = enc.NONE_I
BIG = 10 ** 8


def _i(x):
    """an int argument small enough for TLC, None as the sentinel; anything else is not mappable"""
    if x is None:
        return NONE_I
    if isinstance(x, bool):
        return int(x)
    if isinstance(x, int) and abs(x) < BIG:
        return x
    raise ValueError('not mappable')


def _ba(x):
    return NONE_I if x is None else int(bool(x))


class Mapper:
    """Maps a call the tests make onto a fully specified call of the specification when its arguments have the simple
    shapes below (bitstrings, strings / bytes that the library promotes, small ints, None, slices of those); returns
    None otherwise and the call is then judged on envelope and frame only (extcall)."""
    def __init__(self, rec):
        self.rec = rec

    def operand(self, a):
        import bitstring
        if isinstance(a, bitstring.Bits):
            name = self.rec.name_of(a, create=False)
            if name is None:
                raise ValueError('untracked operand')
            p = self.rec.proj(a)
            return {'k': 'obj', 'id': name, 'kind': p['c'], 'v': p['v']}
        if isinstance(a, (str, bytes, bytearray)) and len(a) < 600:
            b = bitstring.Bits(a)          # (promotion itself is the subject of C02 / C08)
            return {'k': 'lit', 'id': '', 'kind': 'bin', 'v': [int(ch) for ch in b.bin]}
        raise ValueError('not mappable')

    def posarg(self, pos):
        if pos is None:
            return 'none', []
        if isinstance(pos, bool):
            raise ValueError
        if isinstance(pos, int):
            return 'int', [_i(pos)]
        if isinstance(pos, (list, tuple)) and len(pos) <= 40 and all(isinstance(q, int) and not isinstance(q, bool) for q in pos):
            return ('list' if isinstance(pos, list) else 'tuple'), [_i(q) for q in pos]
        if isinstance(pos, range) and len(pos) <= 200:
            return 'range', [_i(pos.start), _i(pos.stop), _i(pos.step)]
        raise ValueError

    def map(self, m, args, kw):
        try:
            return self._map(m, list(args), dict(kw))
        except Exception:
            return None

    def _map(self, m, a, kw):
        C = lambda op, **f: dict({'op': op, 'ia': [], 'sa': [], 'va': [], 'xs': []}, **f)
        n = len(a)
        if m in ('__len__', '__bool__', '__invert__', 'clear', 'bytealign', 'copy') and not a and not kw:
            return C({'__len__': 'len', '__bool__': 'bool', '__invert__': 'inv', 'clear': 'clear', 'bytealign': 'bytealign',
                      'copy': 'copy_m'}[m])
        if m == 'tobytes' and not a and not kw:
            return C('tobytes', sa=['tobytes'])
        binops = {'__eq__': 'eq', '__ne__': 'ne', '__add__': 'add', '__and__': 'and', '__or__': 'or', '__xor__': 'xor',
                  '__iadd__': 'iadd', '__iand__': 'iand', '__ior__': 'ior', '__ixor__': 'ixor', '__contains__': 'contains',
                  'append': 'append', 'prepend': 'prepend'}
        if m in binops and n == 1 and not kw:
            return C(binops[m], xs=[self.operand(a[0])])
        intops = {'__mul__': 'mul', '__lshift__': 'lshift', '__rshift__': 'rshift', '__imul__': 'imul', '__ilshift__': 'ilshift',
                  '__irshift__': 'irshift'}
        if m in intops and n == 1 and not kw and isinstance(a[0], int) and not isinstance(a[0], bool):
            return C(intops[m], ia=[_i(a[0])])
        if m in ('__getitem__', '__delitem__') and n == 1:
            k = a[0]
            if isinstance(k, slice):
                return C('getslice' if m == '__getitem__' else 'delslice', ia=[_i(k.start), _i(k.stop), _i(k.step)])
            if isinstance(k, int) and not isinstance(k, bool):
                return C('getitem' if m == '__getitem__' else 'delitem', ia=[_i(k)])
            return None
        if m == '__setitem__' and n == 2:
            k, v = a
            if isinstance(k, slice):
                c = C('setslice', ia=[_i(k.start), _i(k.stop), _i(k.step)])
            elif isinstance(k, int) and not isinstance(k, bool):
                c = C('setitem', ia=[_i(k)])
            else:
                return None
            if isinstance(v, int):
                if abs(int(v)) >= 1 << 62:
                    return None
                c['va'] = [enc.enc_int(int(v))]
            else:
                c['xs'] = [self.operand(v)]
            return c
        if m in ('insert', 'overwrite') and 1 <= n <= 2 and set(kw) <= {'pos'}:
            pos = a[1] if n == 2 else kw.get('pos')
            return C(m, xs=[self.operand(a[0])], ia=[_i(pos)])
        if m == 'reverse' and n <= 2 and set(kw) <= {'start', 'end'}:
            st = a[0] if n >= 1 else kw.get('start')
            en = a[1] if n >= 2 else kw.get('end')
            return C('reverse', ia=[_i(st), _i(en)])
        if m in ('rol', 'ror') and 1 <= n <= 3 and set(kw) <= {'start', 'end'}:
            st = a[1] if n >= 2 else kw.get('start')
            en = a[2] if n >= 3 else kw.get('end')
            return C(m, ia=[_i(a[0]), _i(st), _i(en)])
        if m == 'invert' and n <= 1 and set(kw) <= {'pos'}:
            kind, ia = self.posarg(a[0] if n else kw.get('pos'))
            return C('invert', sa=[kind], ia=ia)
        if m in ('set', 'all', 'any') and 1 <= n <= 2 and set(kw) <= {'pos'}:
            kind, ia = self.posarg(a[1] if n == 2 else kw.get('pos'))
            return C(m, sa=[kind], ia=[int(bool(a[0]))] + ia)
        if m == 'count' and n == 1 and not kw:
            return C('count', ia=[int(bool(a[0]))])
        if m in ('find', 'rfind') and 1 <= n <= 4 and set(kw) <= {'start', 'end', 'bytealigned'}:
            st = a[1] if n >= 2 else kw.get('start')
            en = a[2] if n >= 3 else kw.get('end')
            ba = a[3] if n >= 4 else kw.get('bytealigned')
            return C(m, xs=[self.operand(a[0])], ia=[_i(st), _i(en), _ba(ba)])
        if m in ('startswith', 'endswith') and 1 <= n <= 3 and set(kw) <= {'start', 'end'}:
            st = a[1] if n >= 2 else kw.get('start')
            en = a[2] if n >= 3 else kw.get('end')
            return C(m, xs=[self.operand(a[0])], ia=[_i(st), _i(en)])
        if m == 'replace' and 2 <= n <= 6 and set(kw) <= {'start', 'end', 'count', 'bytealigned'}:
            g = lambda i, k: a[i] if n > i else kw.get(k)
            return C('replace', xs=[self.operand(a[0]), self.operand(a[1])],
                     ia=[_i(g(2, 'start')), _i(g(3, 'end')), _i(g(4, 'count')), _ba(g(5, 'bytealigned'))])
        if m in ('read', 'peek') and n == 1 and not kw and isinstance(a[0], int) and not isinstance(a[0], bool):
            return C('readbits' if m == 'read' else 'peekbits', ia=[_i(a[0])])
        return None


class Recorder:
    def __init__(self):
        self.f = None
        self.depth = 0
        self.tid = 0
        self.seq = 0
        self.ids = {}        # id(obj) -> (name, obj)
        self.last = {}       # name -> projection last logged
        self.order = []      # names, oldest first
        self.opts = None
        self.active = False
        self.nobj = 0
        self.stats = {'events': 0, 'tests': 0, 'calls_skipped_large': 0}
        self.mapper = Mapper(self)

    # -- per test ---------------------------------------------------------
    def start_test(self):
        self.tid += 1
        self.seq = 0
        self.ids, self.last, self.order = {}, {}, []
        self.opts = {'lsb0': False, 'ba': False, 'mx': 'saturate'}
        self.nobj = 0
        self.active = self.f is not None
        self.stats['tests'] += 1
        if self.active:
            now = self.cur_opts()
            if now != self.opts:
                # a test file may have left options set (module-level fixtures): state it
                self.sync_opts(now)

    def end_test(self):
        self.active = False
        self.ids, self.last, self.order = {}, {}, []

    # -- helpers -----------------------------------------------------------
    def cur_opts(self):
        import bitstring
        o = bitstring.options
        return {'lsb0': bool(o.lsb0), 'ba': bool(o.bytealigned), 'mx': str(o.mxfp_overflow)}

    def emit(self, ev):
        ev['tid'] = self.tid
        ev['seq'] = self.seq
        self.seq += 1
        for k, d in (('t', ''), ('drop', []), ('ia', []), ('raw', []), ('sa', []), ('va', []), ('xs', []), ('tk', [])):
            ev.setdefault(k, d)
        self.f.write(json.dumps(ev, separators=(',', ':')) + '\n')
        self.stats['events'] += 1

    def sync_opts(self, now):
        for key, name in (('lsb0', 'lsb0'), ('ba', 'ba'), ('mx', 'mx')):
            if now[key] != self.opts[key]:
                val = int(now[key]) if key != 'mx' else (1 if now[key] == 'overflow' else 0)
                after = dict(self.opts)
                after[key] = now[key]
                self.emit({'op': 'setopt', 'sa': [name, 'options'], 'ia': [val], 'opts': dict(self.opts),
                           'out': {'k': 'ok', 'exc': [], 'ename': '', 'vals': [[0]], 'ids': [''], 'alias': ['']},
                           'post': {}, 'optsp': after})
                self.opts = after

    def trackable(self, o):
        try:
            return len(o) <= MAXBITS
        except Exception:
            return False

    def name_of(self, o, create=True):
        ent = self.ids.get(id(o))
        if ent is not None and ent[1] is o:
            return ent[0]
        if not create:
            return None
        self.nobj += 1
        name = 'x%d' % self.nobj
        self.ids[id(o)] = (name, o)
        self.order.append(name)
        return name

    def proj(self, o):
        p = enc.project(o)
        return {'c': p['c'], 'v': p['v'], 'p': p['p'], 'n': p['n']}

    def resync(self, extra):
        """log (unjudged) the current state of tracked objects that changed outside a call, and of objects seen for
        the first time"""
        post = {}
        byname = {n: o for n, o in self.ids.values()}
        for name in list(dict.fromkeys([self.name_of(o) for o in extra] + self.order[-MAXOBJS:])):
            o = byname[name]
            try:
                p = self.proj(o)
            except Exception:
                continue
            if self.last.get(name) != p:
                post[name] = p
                self.last[name] = p
        if post:
            # objects that changed between calls are re-introduced (dropped and seen again): nothing is judged here
            self.emit({'op': 'extsee', 'drop': sorted(post), 'opts': dict(self.opts), 'post': post, 'optsp': dict(self.opts),
                       'out': {'k': 'ok', 'exc': [], 'ename': '', 'vals': [], 'ids': [], 'alias': []}})

    # -- the wrapper -------------------------------------------------------
    def call(self, fn, mname, self_obj, args, kwargs):
        import bitstring
        if not self.active or self.depth > 0:
            return fn(self_obj, *args, **kwargs)
        if self.seq >= MAXEVENTS:
            self.active = False
            self.stats['tests_cut'] = self.stats.get('tests_cut', 0) + 1
            return fn(self_obj, *args, **kwargs)
        self.depth += 1
        try:
            involved = [self_obj] + [a for a in list(args) + list(kwargs.values()) if isinstance(a, bitstring.Bits)]
            if not all(self.trackable(o) for o in involved):
                self.stats['calls_skipped_large'] += 1
                return fn(self_obj, *args, **kwargs)      # (nested calls are not logged either)
            try:
                for o in involved:
                    self.proj(o)
            except Exception:
                # an object still under construction (its constructor is calling its own public methods): not loggable
                self.stats['calls_on_unfinished_objects'] = self.stats.get('calls_on_unfinished_objects', 0) + 1
                return fn(self_obj, *args, **kwargs)
            now = self.cur_opts()
            if now != self.opts:
                self.sync_opts(now)
            for o in involved:
                self.name_of(o)
            self.resync(involved)
            tname = self.name_of(self_obj)
            before = dict(self.opts)
            mapped = self.mapper.map(mname, args, kwargs) if FULL else None
            out = {'k': 'ok', 'exc': [], 'ename': '', 'vals': [], 'ids': [], 'alias': []}
            ret = None
            err = None
            try:
                ret = fn(self_obj, *args, **kwargs)     # depth > 0: calls made inside are not logged
            except BaseException as e:      # noqa - re-raised below
                err = e
            if err is not None and not isinstance(err, Exception):
                raise err
            if err is not None:
                out['k'] = 'raise'
                out['exc'] = enc.exc_categories(err)
                out['ename'] = type(err).__name__
            post = {}
            if err is None and isinstance(ret, bitstring.Bits) and self.trackable(ret):
                rname = self.name_of(ret, create=False)
                fresh = rname is None
                if fresh:
                    rname = self.name_of(ret)
                out['vals'].append(enc.enc_obj(ret))
                out['ids'].append(rname)
                out['alias'].append('' if fresh else rname)
            elif err is None and mapped is not None:
                if isinstance(ret, bitstring.Bits):
                    mapped = None          # a result too large to log
                else:
                    try:
                        out['vals'].append(enc.enc_value(ret, OPS[mapped['op']][1]))
                        out['ids'].append('')
                        out['alias'].append('')
                    except Exception:
                        mapped = None
            byname = {n: o for n, o in self.ids.values()}
            watch = list(dict.fromkeys([self.name_of(o) for o in involved] + self.order[-MAXOBJS:]))
            for name in watch:
                try:
                    p = self.proj(byname[name])
                except Exception:
                    p = {'c': type(byname[name]).__name__, 'v': [], 'p': -1, 'n': -1}    # no longer printable: broken
                if self.last.get(name) != p:
                    post[name] = p
                    self.last[name] = p
            after = self.cur_opts()
            if mapped is not None:
                self.stats['calls_fully_specified'] = self.stats.get('calls_fully_specified', 0) + 1
                self.emit(dict(mapped, t=tname, opts=before, out=out, post=post, optsp=after))
            else:
                if out['vals'] and not out['ids'][0]:
                    out['vals'], out['ids'], out['alias'] = [], [], []
                self.emit({'op': 'extcall', 't': tname, 'sa': [mname], 'opts': before, 'out': out, 'post': post, 'optsp': after})
            self.opts = after
            if err is not None:
                raise err
            return ret
        finally:
            self.depth -= 1


REC = Recorder()


def _wrap(cls, name, fn):
    import functools

    @functools.wraps(fn)
    def wrapper(self, *args, **kwargs):
        return REC.call(fn, name, self, args, kwargs)
    wrapper.__verif_wrapped__ = True
    setattr(cls, name, wrapper)


def install():
    import bitstring
    import types
    n = 0
    for cls in (bitstring.Bits, bitstring.BitArray, bitstring.ConstBitStream, bitstring.BitStream):
        for name, attr in list(vars(cls).items()):
            if name in SKIP or (name.startswith('_') and not (name.startswith('__') and name.endswith('__'))):
                continue
            if isinstance(attr, types.FunctionType) and not getattr(attr, '__verif_wrapped__', False):
                _wrap(cls, name, attr)
                n += 1
    return n


def pytest_configure(config):
    if OUT:
        REC.f = open(OUT, 'w')
        REC.nwrapped = install()


def pytest_runtest_setup(item):
    REC.start_test()
    if REC.f:
        # a line that is not an event: which test the following tid belongs to (read by harness/exttrace.py)
        REC.f.write(json.dumps({'tid': REC.tid, 'nodeid': item.nodeid}) + '\n')


def pytest_runtest_teardown(item):
    REC.end_test()


def pytest_unconfigure(config):
    if REC.f:
        REC.f.close()
        with open(OUT + '.stats', 'w') as f:
            json.dump(dict(REC.stats, wrapped_methods=getattr(REC, 'nwrapped', 0)), f)
