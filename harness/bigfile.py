"""Thorough tier of C17: one real object larger than the shipped 100 MiB tofile chunk, with the hook unset.
The content is zeros with a few ones at known places, so the expected bytes are known without materialising
a second copy: tobytes() of the spec is zeros except those bytes (ToBytesOf in Serial.tla on the sparse
description). The comparison is on (size, positions of non-zero bytes)."""
import os
import tempfile

from .world import load_bitstring


def check_100mib(chk):
    bs = load_bitstring()
    os.environ.pop('BITSTRING_VERIF_TOFILE_CHUNK_BITS', None)
    n = 8 * 100 * 1024 * 1024 + 13
    a = bs.BitArray(n)
    ones = [0, 8 * 100 * 1024 * 1024 - 1, 8 * 100 * 1024 * 1024, n - 1]
    a.set(1, ones)
    d = tempfile.mkdtemp(prefix='verif_big_', dir=('/dev/shm' if __import__('os').path.isdir('/dev/shm') else None))
    fn = os.path.join(d, 'big.bin')
    try:
        with open(fn, 'wb') as f:
            a.tofile(f)
        size = os.path.getsize(fn)
        nz = {}
        with open(fn, 'rb') as f:
            off = 0
            while True:
                blk = f.read(1 << 24)
                if not blk:
                    break
                if blk.count(0) != len(blk):
                    for i, b in enumerate(blk):
                        if b:
                            nz[off + i] = b
                off += len(blk)
        exp_size = (n + 7) // 8
        exp = {}
        for p in ones:
            exp[p // 8] = exp.get(p // 8, 0) | (0x80 >> (p % 8))
        ok = size == exp_size and nz == exp
        chk.extra_cov['big_tofile'] = {'bits': n, 'bytes_written': size, 'nonzero_bytes': {str(k): v for k, v in nz.items()}, 'ok': ok}
        if not ok:
            chk.rejects.append((-1, 0, 'tofile-100MiB'))
            chk.notes.append(f'tofile of {n} bits wrote {size} bytes with non-zero bytes {nz}, expected {exp_size} / {exp}')
    finally:
        try:
            os.remove(fn)
            os.rmdir(d)
        except OSError:
            pass
