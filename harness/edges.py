"""Turning rows enumerated by TLC generators (Gen_Core.tla: state x call edges of the
Ref machine) into programs for the runner."""
import os

from .drivers import CLASSES, MUTABLE, STREAMS, MEM_ROUTES, mk, setopt
from .enc import NONE_I
from . import tlc

LIT_KINDS = ['bin', 'bools', 'bitarray', 'hex', 'Bits', 'bytes', 'tuple', 'BitArray', 'oct', 'ConstBitStream',
             'bytearray', 'BitStream', 'bitarray_le', 'gen_truthy']


def kind_ok(kind, n):
    if kind == 'hex':
        return n and n % 4 == 0
    if kind == 'oct':
        return n and n % 3 == 0
    if kind in ('bytes', 'bytearray'):
        return n % 8 == 0
    return True


def write_cfg(wd, name, consts, spec='GenSpec', extra=''):
    path = os.path.join(wd, name)
    with open(path, 'w') as f:
        f.write(f'SPECIFICATION {spec}\n')
        for k, v in consts.items():
            f.write(f'CONSTANT {k} = {v}\n')
        f.write('CHECK_DEADLOCK FALSE\n')
        f.write(extra)
    return path


def gen_family(chk, family, L, LX):
    cfg = write_cfg(chk.wd, f'Gen_Core_{family}.cfg', {'Family': f'"{family}"', 'L': L, 'LX': LX})
    return chk.gen('Gen_Core.tla', cfg, outname=f'gen_{family}.ndjson')


def programs_from_edges(rows, classes, lsb0=False, ba=False, chunk=100, all_pos=False, routes=MEM_ROUTES,
                        reuse=False):
    """One program per chunk of edges: [setopt] (mk a; call)* with everything dropped before each mk.
    reuse: for calls that cannot change the target (non-mutating family on a class without pos) the object
    is built once per content and reused."""
    progs = []
    counter = 0
    cur = None
    rows = sorted(rows, key=lambda r: (len(r['v']), r['v']))
    for cls in classes:
        last_v = None
        for r in rows:
            v = r['v']
            n = len(v)
            if cls in STREAMS:
                if r['p'] >= 0:
                    poss = [r['p']]
                elif all_pos:
                    poss = list(range(n + 1))
                else:
                    poss = [counter % (n + 1)]
            else:
                if r['p'] > 0:
                    continue       # position-specific rows make sense for streams only
                poss = [NONE_I]
            for pos in poss:
                counter += 1
                call = dict(r['call'])
                xs = []
                for x in call.get('xs', []):
                    x = dict(x)
                    if x['k'] == 'lit':
                        k0 = counter
                        for j in range(len(LIT_KINDS)):
                            kind = LIT_KINDS[(k0 + j) % len(LIT_KINDS)]
                            if kind_ok(kind, len(x['v'])):
                                x['kind'] = kind
                                break
                    xs.append(x)
                call['xs'] = xs
                fresh = cur is None or len(cur) >= 2 * chunk
                if fresh:
                    cur = []
                    progs.append({'calls': cur})
                    if lsb0:
                        cur.append(setopt('lsb0', 1))
                    if ba:
                        cur.append(setopt('ba', 1))
                if fresh or not (reuse and cls not in STREAMS and last_v == v):
                    m = mk('a', cls, v, routes[counter % len(routes)], pos)
                    m['drop'] = ['*']
                    cur.append(m)
                    last_v = v
                else:
                    call['drop'] = [k for k in ()]  # results of earlier calls are dropped below
                    call = dict(call, drop=['r*'])
                cur.append(call)
    return progs


def programs_from_histories(hists):
    """Behaviours of the Ref machine (spec/Ref.tla, printed by `tlc -simulate`) as programs: the initial objects are
    built directly, then every call of the history is performed; results the machine does not track are dropped."""
    progs = []
    for n, h in enumerate(hists):
        calls = []
        for j, oid in enumerate(('a', 'b', 'c')):
            r = h['init'][oid]
            calls.append(mk(oid, r['c'], r['v'], MEM_ROUTES[(n + j) % len(MEM_ROUTES)], r['p'] if r['p'] >= 0 else NONE_I))
        for i, c in enumerate(h['calls']):
            c = dict(c)
            xs = []
            for x in c.get('xs', []):
                x = dict(x)
                if x['k'] == 'lit':
                    for j in range(len(LIT_KINDS)):
                        kind = LIT_KINDS[(n + i + j) % len(LIT_KINDS)]
                        if kind_ok(kind, len(x['v'])):
                            x['kind'] = kind
                            break
                xs.append(x)
            c['xs'] = xs
            if c['op'] == 'setopt':
                c.pop('t', None)
            c['drop'] = ['r*']
            calls.append(c)
        progs.append({'calls': calls})
    return progs


def programs_from_mech_histories(hists):
    """Behaviours of the mechanism model (spec/MechSim.tla) as programs on the real classes.  The two cache keys are a
    plain literal and a token string whose meaning depends on options.mxfp_overflow (the model's option);
    'Bits' / 'BitArray' of the model alternate with the stream classes."""
    from .enc import enc_float
    progs = []
    for n, h in enumerate(hists):
        calls = []
        ext = {}
        cls_of = {}
        live = set()
        for i, st in enumerate(h):
            a = st['a']
            if a == 'newstr':
                cls = (['Bits', 'ConstBitStream'] if st['c'] == 'Bits' else ['BitArray', 'BitStream'])[(n + i) % 2]
                if st['k'] == 'k1':
                    tk = [{'nm': 'e4m3mxfp', 'n': NONE_I, 'hv': 1, 'val': enc_float([1000.0, -1000.0][n % 2])}]
                else:
                    tk = [{'nm': 'lit', 'n': NONE_I, 'hv': 0, 'val': [8, 1, -1, 4, 0, 1, 0, 1]}]
                calls.append({'op': 'newfmt', 'rid': st['o'], 'sa': [cls, 'fromstring' if st['fs'] else 'ctor'], 'tk': tk, 'ia': [0]})
                cls_of[st['o']] = cls
                live.add(st['o'])
            elif a in ('newobj', 'bitskw'):
                cls = (['Bits', 'ConstBitStream'] if st['c'] == 'Bits' else ['BitArray', 'BitStream'])[(n + i) % 2]
                calls.append({'op': 'mk', 'rid': st['o'], 'sa': [cls, 'from_obj' if a == 'newobj' else 'bits_kw'], 'ia': [NONE_I],
                              'xs': [{'k': 'obj', 'id': st['src']}]})
                cls_of[st['o']] = cls
            elif a == 'mutate':
                calls.append([{'op': 'invert', 't': st['o'], 'sa': ['none'], 'ia': []},
                              {'op': 'append', 't': st['o'], 'xs': [{'k': 'lit', 'kind': 'bin', 'v': [1]}]},
                              {'op': 'reverse', 't': st['o'], 'ia': [NONE_I, NONE_I]},
                              {'op': 'setitem', 't': st['o'], 'ia': [0], 'va': [[2, 0, 1]]}][(n + i) % 4])
            elif a == 'tobitarray':
                eid = 'e%d' % len(ext)
                ext[st['st']] = eid
                calls.append({'op': 'tobitarray', 't': st['o'], 'rid': eid})
            elif a == 'heldmutate':
                if st['st'] in ext:
                    calls.append({'op': 'extmut', 'sa': [ext[st['st']]], 'ia': [(n + i) % 6]})
            elif a == 'setopt':
                calls.append(setopt('mx', 1 if st['b'] else 0))
        progs.append({'calls': calls})
    return progs


def programs_from_array_histories(hists):
    """Behaviours of the Array machine (spec/ArraySim.tla): the initial Array is built from its data bits, then every
    list operation of the history is performed on the real Array."""
    progs = []
    for n, h in enumerate(hists):
        init = h['init']
        calls = [{'op': 'anewdata', 'rid': 'a', 'sa': [init['dn']], 'ia': [init['dl'], n % 3],
                  'xs': [{'k': 'lit', 'kind': ['Bits', 'BitArray', 'BitStream'][n % 3], 'v': init['v']}]}]
        for c in h['calls']:
            c = dict(c)
            c.pop('tk', None)
            c['drop'] = ['r*']
            calls.append(c)
            if len(calls) % 3 == 0:
                calls.append({'op': 'atolist', 't': 'a'})
        calls.append({'op': 'adata', 't': 'a'})
        progs.append({'calls': calls})
    return progs
