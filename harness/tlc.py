"""Running TLC: model checking, generation and trace validation."""
import json
import os
import re
import shutil
import subprocess
import time
from concurrent.futures import ThreadPoolExecutor

VERIF = os.path.dirname(os.path.dirname(os.path.abspath(__file__)))
SPEC = os.path.join(VERIF, 'spec')
JAR = '/opt/veriftools/tla/tla2tools.jar:/opt/veriftools/tla/CommunityModules-deps.jar'


class MachineryError(Exception):
    pass


def workdir(run):
    d = os.path.join(VERIF, '.work', run)
    os.makedirs(d, exist_ok=True)
    return d


def _tlc(args, env=None, timeout=3600, heap='2g'):
    e = dict(os.environ)
    if env:
        e.update(env)
    cmd = ['java', '-XX:+UseParallelGC', f'-Xmx{heap}', '-Xss16m', '-cp', JAR, 'tlc2.TLC'] + args
    t0 = time.time()
    try:
        p = subprocess.run(cmd, cwd=SPEC, env=e, capture_output=True, text=True, timeout=timeout)
    except subprocess.TimeoutExpired as ex:
        raise MachineryError(f'TLC timed out after {timeout}s: {" ".join(args)}')
    return p.returncode, p.stdout + p.stderr, time.time() - t0


_STATES = re.compile(r'(\d+) states generated, (\d+) distinct states found')


def parse_counts(out):
    m = None
    for m in _STATES.finditer(out):
        pass
    if not m:
        return 0, 0
    return int(m.group(2)), int(m.group(1))   # distinct states, generated (= transitions + inits)


def model_check(module, cfg, wd, workers=16, timeout=3600, env=None, heap='8g', extra=()):
    """Exhaustive model check. Returns dict(states, transitions, ok, out, wall)."""
    meta = os.path.join(wd, 'meta_' + os.path.basename(cfg).replace('.cfg', ''))
    shutil.rmtree(meta, ignore_errors=True)
    rc, out, wall = _tlc(['-workers', str(workers), '-metadir', meta, '-noGenerateSpecTE',
                          '-config', cfg] + list(extra) + [module], env=env, timeout=timeout, heap=heap)
    shutil.rmtree(meta, ignore_errors=True)
    states, gen = parse_counts(out)
    ok = 'Model checking completed. No error has been found.' in out
    return {'module': module, 'cfg': cfg, 'states': states, 'transitions': gen, 'ok': ok, 'out': out,
            'wall': round(wall, 2), 'rc': rc}


def require_ok(r):
    if not r['ok']:
        tail = '\n'.join(r['out'].splitlines()[-60:])
        raise MachineryError(f"TLC run of {r['module']} / {r['cfg']} failed (the specification itself "
                             f"violates one of its own theorems or could not be evaluated):\n{tail}")
    return r


_REJ = re.compile(r'<<"REJECT", (-?\d+), (-?\d+), "([^"]*)">>')


_VALIDATION = [0]


def validate_shard(path, wd, k, timeout=3600, heap='3g', module='Trace.tla', cfg='Trace.cfg'):
    # (validations may run concurrently from several threads of one check: every run gets its own metadir)
    meta = os.path.join(wd, f'meta_trace_{k}')
    shutil.rmtree(meta, ignore_errors=True)
    rc, out, wall = _tlc(['-workers', '1', '-metadir', meta, '-noGenerateSpecTE', '-config', cfg, module],
                         env={'TRACE_FILE': path}, timeout=timeout, heap=heap)
    shutil.rmtree(meta, ignore_errors=True)
    states, gen = parse_counts(out)
    ok = 'Model checking completed. No error has been found.' in out
    rejects = [(int(a), int(b), c) for a, b, c in _REJ.findall(out)]
    return {'ok': ok, 'states': states, 'transitions': gen, 'rejects': rejects, 'out': out, 'wall': wall}


def validate_shards(paths, wd, par=16, timeout=3600):
    """Validate ndjson trace shards in parallel TLC processes."""
    paths = [p for p in paths if os.path.getsize(p) > 0]
    if not paths:
        return {'states': 0, 'transitions': 0, 'rejects': [], 'wall': 0.0}
    t0 = time.time()
    _VALIDATION[0] += 1
    run = _VALIDATION[0]
    with ThreadPoolExecutor(max_workers=par) as ex:
        rs = list(ex.map(lambda kp: validate_shard(kp[1], wd, f'{run}_{kp[0]}', timeout=timeout), enumerate(paths)))
    for p, r in zip(paths, rs):
        if not r['ok']:
            lines = r['out'].splitlines()
            first = next((i for i, l in enumerate(lines) if l.startswith('Error:')), max(0, len(lines) - 40))
            tail = '\n'.join(lines[first:first + 30])
            raise MachineryError(f'trace validation of {p} did not complete (specification could not be '
                                 f'evaluated on some event, or not every event was consumed):\n{tail}')
    return {'states': sum(r['states'] for r in rs), 'transitions': sum(r['transitions'] for r in rs),
            'rejects': [x for r in rs for x in r['rejects']], 'wall': round(time.time() - t0, 2)}


def generate(module, cfg, wd, outname, timeout=1800, env=None, heap='8g', workers=1):
    """Run a generator spec that writes ndjson to $GEN_OUT (ASSUME ndJsonSerialize ...)."""
    out_path = os.path.join(wd, outname)
    if os.path.exists(out_path):
        os.remove(out_path)
    e = {'GEN_OUT': out_path}
    if env:
        e.update(env)
    r = model_check(module, cfg, wd, workers=workers, timeout=timeout, env=e, heap=heap)
    if not os.path.exists(out_path):
        tail = '\n'.join(r['out'].splitlines()[-40:])
        raise MachineryError(f'generator {module} wrote nothing:\n{tail}')
    with open(out_path) as f:
        rows = [json.loads(line) for line in f if line.strip()]
    r['rows'] = rows
    return r


_HIST = re.compile(r'^<<"HIST", (".*")>>$')


def simulate(module, cfg, wd, num, depth, seed, k=0, timeout=1800, heap='2g'):
    """One `tlc -simulate` process; returns the JSON histories the specification printed (one per behaviour)
    and the number of states TLC generated."""
    meta = os.path.join(wd, f'meta_sim_{k}')
    shutil.rmtree(meta, ignore_errors=True)
    rc, out, wall = _tlc(['-workers', '1', '-simulate', f'num={num}', '-depth', str(depth), '-seed', str(seed),
                          '-metadir', meta, '-noGenerateSpecTE', '-config', cfg, module], timeout=timeout, heap=heap)
    shutil.rmtree(meta, ignore_errors=True)
    hists = []
    for line in out.splitlines():
        m = _HIST.match(line.strip())
        if m:
            hists.append(json.loads(json.loads(m.group(1))))
    if 'Error:' in out or not hists:
        tail = '\n'.join(out.splitlines()[-30:])
        raise MachineryError(f'simulation of {module} / {cfg} failed or printed no behaviour:\n{tail}')
    m = re.search(r'The number of states generated: (\d+)', out)
    return {'hists': hists, 'states': int(m.group(1)) if m else 0, 'wall': wall}


def simulate_par(module, cfg, wd, procs, num, depth, seed, timeout=1800):
    with ThreadPoolExecutor(max_workers=procs) as ex:
        rs = list(ex.map(lambda k: simulate(module, cfg, wd, num, depth, seed * 1000 + k, k, timeout), range(procs)))
    return {'hists': [h for r in rs for h in r['hists']], 'states': sum(r['states'] for r in rs),
            'wall': max(r['wall'] for r in rs)}


def apalache(module, init, inv, length, wd, timeout=600):
    """One `apalache-mc check` run (bounded by `timeout`): returns 'ok' (no error up to the length), 'violated'
    (a counterexample was found) or 'unavailable: <reason>' when the tool itself could not run."""
    out_dir = os.path.join(wd, f'apalache_{init}_{inv}_{length}')
    shutil.rmtree(out_dir, ignore_errors=True)
    try:
        p = subprocess.run(['apalache-mc', 'check', f'--init={init}', f'--inv={inv}', f'--length={length}', f'--out-dir={out_dir}',
                            module], cwd=SPEC, capture_output=True, text=True, timeout=timeout)
    except (OSError, subprocess.TimeoutExpired) as e:
        return f'unavailable: {type(e).__name__}'
    finally:
        shutil.rmtree(out_dir, ignore_errors=True)
    out = p.stdout + p.stderr
    if 'The outcome is: NoError' in out:
        return 'ok'
    if 'The outcome is: Error' in out or 'violat' in out.lower():
        return 'violated'
    return 'unavailable: ' + (out.strip().splitlines()[-1][:200] if out.strip() else f'exit {p.returncode}')
