"""Programs for serialisation, windows over byte sources and construction routes (C17, C08)."""
from .enc import NONE_I
from . import drivers as _d

SOURCES = ['bytes', 'bytearray', 'bytesio', 'bitarray_kw', 'filename', 'filehandle', 'bitarray_le_kw']


def window_program(rng, big=False, lsb0=False):
    calls = [_d.setopt('lsb0', 1)] if lsb0 else []
    for _ in range(rng.randint(2, 5)):
        nbytes = rng.choice([0, 1, 2, 3, 5, 8, 9] + ([150, 300] if big else []))
        kind = rng.choice(SOURCES)
        if kind in ('filename', 'filehandle') and nbytes == 0:
            nbytes = 1      # an empty file cannot be memory mapped
        nbits = 8 * nbytes if kind not in ('bitarray_kw', 'bitarray_le_kw') else rng.choice([8 * nbytes, max(0, 8 * nbytes - 3)])
        src = _d.rand_bits(rng, nbits)
        r = rng.random()
        if r < 0.15:
            off, ln = NONE_I, NONE_I
        elif r < 0.3:
            off, ln = rng.randint(0, nbits), NONE_I
        elif r < 0.45:
            off, ln = NONE_I, rng.randint(0, nbits)
        else:
            off = rng.randint(0, nbits)
            ln = rng.randint(0, nbits - off)
        # push some windows over / at the limits
        k = rng.random()
        if k < 0.1:
            off = nbits + rng.choice([1, 7, 8, 9])
        elif k < 0.2 and ln != NONE_I:
            ln = ln + rng.choice([1, 2, 7, 8])
            if off != NONE_I and rng.random() < 0.5:
                ln = nbits - off + 1
        elif k < 0.25:
            off = -rng.choice([1, 8])
        elif k < 0.3:
            ln = -rng.choice([1, 8])
        cls = rng.choice(_d.CLASSES)
        calls.append({'op': 'mkwin', 'rid': 'a', 'sa': [cls, kind], 'ia': [off, ln, NONE_I],
                      'xs': [_d.lit('bin', src)], 'drop': ['*']})
        calls.append({'op': 'tobytes', 't': 'a', 'sa': [rng.choice(['tobytes', 'bytes()', 'prop'])]})
        calls.append({'op': 'tofile', 't': 'a', 'sa': [rng.choice(['path', 'bytesio'])], 'ia': [NONE_I]})
        calls.append({'op': 'len', 't': 'a'})
    return {'calls': calls}


def tofile_program(rng, huge=False, lsb0=False):
    """contents around the (hooked) chunk size: below / at / above / multiples"""
    calls = [_d.setopt('lsb0', 1)] if lsb0 else []
    chunk = rng.choice([8, 16, 64, 1024])
    for n in rng.sample([0, 1, 7, chunk - 1, chunk, chunk + 1, chunk + 5, 2 * chunk, 2 * chunk + 3, 3 * chunk - 1, 3 * chunk],
                        4):
        bits = _d.rand_bits(rng, n)
        if n and rng.random() < 0.5:
            bits[-1] = 1
        calls.append(_d.rand_mk(rng, 'a', bits=bits))
        calls[-1]['drop'] = ['*']
        calls.append({'op': 'tofile', 't': 'a', 'sa': [rng.choice(['path', 'bytesio'])], 'ia': [chunk]})
        calls.append({'op': 'tobytes', 't': 'a', 'sa': ['tobytes']})
    return {'calls': calls}


FILE_ROUTES = ['file', 'file_len', 'file_off', 'filehandle']


def route_program(rng, lsb0=False, huge=0.0):
    """C08: the same non-mutating (and, on mutable classes, mutating) calls on twins built by different routes"""
    n = 8 * rng.choice([1, 1, 2, 3, 4, 8, 9]) if rng.random() < 0.6 else rng.choice([1, 3, 5, 12, 13, 30, 65, 100])
    if rng.random() < huge:
        n = rng.choice([2001, 3608, 8200])
    bits = _d.rand_bits(rng, n)
    cls = rng.choice(_d.CLASSES)
    calls = []
    if lsb0:
        calls.append(_d.setopt('lsb0', 1))
    routes = [r for r in _d.MEM_ROUTES + FILE_ROUTES + FILE_ROUTES if not (r in ('file', 'filehandle') and (n % 8 or n == 0))]
    if n == 0:
        routes = [r for r in routes if r not in FILE_ROUTES]
    twins = rng.sample(routes, min(3, len(routes)))
    program_ops = []
    for _ in range(rng.randint(3, 6)):
        r = rng.random()
        if r < 0.2:
            program_ops.append({'op': 'getslice', 'ia': [_d.rand_opt_index(rng, n), _d.rand_opt_index(rng, n), _d.rand_step(rng, n)]})
        elif r < 0.3:
            program_ops.append({'op': 'getitem', 'ia': [_d.rand_index(rng, n)]})
        elif r < 0.4:
            program_ops.append({'op': rng.choice(['eq', 'ne']), 'xs': [_d.lit('bin', bits)]})
        elif r < 0.48:
            program_ops.append({'op': 'hasheq' if cls in ('Bits', 'ConstBitStream') else 'eq', 'xs': [_d.lit('Bits', bits)]})
        elif r < 0.55:
            program_ops.append({'op': 'count', 'ia': [rng.randint(0, 1)]})
        elif r < 0.62:
            program_ops.append({'op': rng.choice(['all', 'any']), 'sa': ['none'], 'ia': [rng.randint(0, 1)]})
        elif r < 0.7:
            program_ops.append({'op': rng.choice(['add', 'radd']), 'xs': [_d.rand_operand(rng, rng.choice([0, 3, 8]), allow_obj=False)]})
        elif r < 0.75:
            program_ops.append({'op': 'mul', 'ia': [rng.choice([0, 1, 2, 3])]})
        elif r < 0.8:
            program_ops.append({'op': 'inv'})
        elif r < 0.86:
            program_ops.append({'op': rng.choice(['and', 'or', 'xor']), 'xs': [_d.lit('bin', _d.rand_bits(rng, n))]})
        elif r < 0.9:
            a, b = _d.rand_window(rng, n)
            program_ops.append({'op': rng.choice(['find', 'rfind', 'endswith', 'startswith']),
                                'xs': [_d.related_operand(rng, bits, allow_self=False)], 'ia': [a, b, NONE_I][:3]})
        elif r < 0.94:
            program_ops.append({'op': 'tobytes', 'sa': ['tobytes']})
        elif r < 0.97:
            program_ops.append({'op': 'join', 'xs': [_d.lit('bin', [1, 0]), _d.lit('bin', [0])]})
        else:
            program_ops.append({'op': 'copy_c'})
    for route in twins:
        calls.append(_d.mk('a', cls, bits, route, NONE_I))
        calls[-1]['drop'] = ['*']
        for po in program_ops:
            c = dict(po)
            if c['op'] in ('startswith', 'endswith'):
                c['ia'] = c['ia'][:2]
            c['t'] = 'a'
            calls.append(c)
        # use the object as an operand of another one and as a constructor argument
        calls.append(_d.mk('b', 'BitArray', [1, 0, 1], 'bin', NONE_I))
        calls.append({'op': 'append', 't': 'b', 'xs': [_d.ref('a')]})
        calls.append({'op': 'mk', 'rid': 'c', 'sa': [rng.choice(_d.CLASSES), 'from_obj'], 'ia': [NONE_I], 'xs': [_d.ref('a')]})
        if cls in _d.MUTABLE:
            calls.append(_d.mutator_call(rng, bits, cls))
            # what is written out afterwards is the changed content, whatever the object was built from
            calls.append({'op': 'tofile', 't': 'a', 'sa': [rng.choice(['path', 'bytesio'])], 'ia': [NONE_I]})
            calls.append({'op': 'tobytes', 't': 'a', 'sa': ['tobytes']})
    return {'calls': calls}


def cache_route_program(rng, lsb0=False):
    """C08, route 'string-cache hit': a literal string is first used in ways that must not change what it means -
    as an operand added to (empty and non-empty) mutable objects that are then changed in place, as a fromstring /
    constructor argument of an object that is then changed - and then the same string is used to build an object that
    is put through the same calls as a twin built from bin= / bools."""
    from .isoprogs import str_lit
    n = rng.choice([4, 8, 8, 12, 16, 24, 32, 3, 6])
    bits = _d.rand_bits(rng, n)
    s = str_lit(rng, bits)                      # one spelling, used throughout (the cache key)
    route = {'bin': 'auto_bin', 'hex': 'auto_hex', 'oct': 'auto_oct'}[s['kind']]
    calls = []
    if lsb0:
        calls.append(_d.setopt('lsb0', 1))
    for k in range(rng.randint(1, 3)):
        tcls = rng.choice(_d.MUTABLE)
        tbits = [] if rng.random() < 0.6 else _d.rand_bits(rng, rng.choice([1, 4, 8]))
        r = rng.random()
        if r < 0.7:
            calls.append(_d.mk('t', tcls, tbits, 'bin', NONE_I))
            calls[-1]['drop'] = ['*']
            opn = rng.choice(['prepend', 'append', 'iadd', 'insert', 'overwrite'] if tbits or True else ['prepend'])
            c = {'op': opn, 't': 't', 'xs': [dict(s)]}
            if opn in ('insert', 'overwrite'):
                c['ia'] = [0]
            calls.append(c)
            cur = bits + tbits if opn == 'prepend' else tbits + bits
        elif r < 0.85:
            calls.append(_d.mk('t', tcls, bits, 'fromstring' if s['kind'] == 'bin' else route, NONE_I))
            calls[-1]['drop'] = ['*']
            cur = bits
        else:
            calls.append(_d.mk('t', tcls, bits, route, NONE_I))
            calls[-1]['drop'] = ['*']
            cur = bits
        for _ in range(rng.randint(1, 2)):
            calls.append(rng.choice([
                {'op': 'invert', 't': 't', 'sa': ['none'], 'ia': []},
                {'op': 'set', 't': 't', 'sa': ['none'], 'ia': [rng.randint(0, 1)]},
                {'op': 'reverse', 't': 't', 'ia': [NONE_I, NONE_I]},
                {'op': 'append', 't': 't', 'xs': [_d.lit('bin', [1])]},
                {'op': 'setitem', 't': 't', 'ia': [0], 'va': [[2, 0, 1]]},
                {'op': 'clear', 't': 't'},
            ]))
    cls = rng.choice(_d.CLASSES)
    ops = []
    for _ in range(rng.randint(2, 4)):
        ops.append(rng.choice([
            {'op': 'eq', 'xs': [_d.lit('bools', bits)]},
            {'op': 'eq', 'xs': [dict(s)]},
            {'op': 'getslice', 'ia': [NONE_I, NONE_I, NONE_I]},
            {'op': 'count', 'ia': [1]},
            {'op': 'tobytes', 'sa': ['tobytes']},
            {'op': 'find', 'xs': [dict(s)], 'ia': [NONE_I, NONE_I, NONE_I]},
            {'op': 'add', 'xs': [dict(s)]},
            {'op': 'inv'},
        ]))
    for rt in (route, 'bools', route, 'bin'):
        calls.append(_d.mk('a', cls, bits, rt, NONE_I))
        calls[-1]['drop'] = ['*']
        for po in ops:
            calls.append(dict(po, t='a'))
    return {'calls': calls}


def tight_window_program(rng):
    """windows whose end is within a byte of the end of the source, from unaligned offsets"""
    calls = []
    for _ in range(rng.randint(3, 6)):
        nbytes = rng.choice([1, 2, 2, 3, 5])
        kind = rng.choice(SOURCES)
        nbits = 8 * nbytes
        src = _d.rand_bits(rng, nbits)
        off = rng.randint(0, min(nbits, 15))
        ln = nbits - off + rng.choice([-8, -1, 0, 0, 1, 1, 2, 3, 5, 7, 7, 8, 9])
        if ln < 0:
            ln = 0
        cls = rng.choice(_d.CLASSES)
        calls.append({'op': 'mkwin', 'rid': 'a', 'sa': [cls, kind], 'ia': [off, ln, NONE_I],
                      'xs': [_d.lit('bin', src)], 'drop': ['*']})
        calls.append({'op': 'len', 't': 'a'})
    return {'calls': calls}


def large_source_window_program(rng):
    """short and long windows over byte sources larger than 4096 bytes (past any size threshold a window
    routine might switch on), from aligned and unaligned offsets anywhere in the source, whole-byte and odd lengths"""
    calls = []
    nbytes = rng.choice([4096, 4097, 4100, 5000, 8192, 8193])
    nbits = 8 * nbytes
    src = _d.rand_bits(rng, nbits)
    for _ in range(rng.randint(2, 4)):
        kind = rng.choice(SOURCES)
        off = rng.choice([rng.randint(0, 40), rng.randint(0, nbits), 8 * rng.randint(0, nbytes), nbits - rng.randint(0, 70)])
        room = nbits - off
        ln = rng.choice([8 * rng.randint(0, 12), rng.randint(0, 100), room, room - rng.randint(0, 16), room - 8 * rng.randint(0, 3),
                         room + rng.choice([1, 7, 8])])
        ln = max(0, ln)
        if ln > 40000 or rng.random() < 0.1:
            ln = NONE_I if rng.random() < 0.5 else min(ln, 8 * rng.randint(1, 40))
        cls = rng.choice(_d.CLASSES)
        calls.append({'op': 'mkwin', 'rid': 'a', 'sa': [cls, kind], 'ia': [off, ln, NONE_I],
                      'xs': [_d.lit('bin', src)], 'drop': ['*']})
        calls.append({'op': 'len', 't': 'a'})
        calls.append({'op': 'tobytes', 't': 'a', 'sa': ['tobytes']})
    return {'calls': calls}
