"""Traces of the repository's own test-suite (recorded by harness/tracer_plugin.py from outside the repository) judged
by spec/Trace.tla: the existing tests then get the frame and envelope clauses evaluated at every public call."""
import glob
import json
import os
import subprocess
import sys
from concurrent.futures import ThreadPoolExecutor

from . import tlc
from .tlc import VERIF, MachineryError


def repo_root():
    return os.environ.get('VERIF_REPO_ROOT', '/repo')


def run_pytest(targets, out, maxevents=300, maxbits=4096, timeout=1500):
    """Run pytest on targets (files or node ids) in the repository under the tracer; returns (events, nodeids, stats)."""
    env = dict(os.environ, VERIF_TRACE_OUT=out, PYTHONPATH=VERIF, VERIF_TRACE_MAXEVENTS=str(maxevents),
               VERIF_TRACE_MAXBITS=str(maxbits), PYTHONDONTWRITEBYTECODE='1')
    env.pop('BITSTRING_VERIF', None)
    # the tests write temporary files next to themselves: run a scratch copy of tests/ (outside /repo and /verif) with
    # the package imported from the repository root
    scratch = out + '.d'
    if not os.path.isdir(os.path.join(scratch, 'tests')):
        import shutil
        os.makedirs(scratch, exist_ok=True)
        shutil.copytree(os.path.join(repo_root(), 'tests'), os.path.join(scratch, 'tests'),
                        ignore=shutil.ignore_patterns('__pycache__', 'temp_*'))
    env['PYTHONPATH'] = repo_root() + os.pathsep + VERIF
    p = subprocess.run([sys.executable, '-m', 'pytest', '-q', '-p', 'no:cacheprovider', '-p', 'harness.tracer_plugin',
                        '--timeout=900', '--benchmark-disable', '-W', 'ignore', '--rootdir', scratch] + list(targets),
                       cwd=scratch, env=env, capture_output=True, text=True, timeout=timeout)
    events, nodeids = [], {}
    if os.path.exists(out):
        with open(out) as f:
            for line in f:
                d = json.loads(line)
                if 'nodeid' in d:
                    nodeids[d['tid']] = d['nodeid']
                else:
                    events.append(d)
    stats = {}
    if os.path.exists(out + '.stats'):
        stats = json.load(open(out + '.stats'))
    last = [l for l in p.stdout.splitlines() if l.strip()]
    stats['pytest_summary'] = last[-1] if last else p.stderr[-200:]
    stats['pytest_rc'] = p.returncode
    return events, nodeids, stats


def validate(events, wd, tag, par=16):
    """shard by test (tid) and validate; returns rejects [(tid, seq, clause)] and state counts"""
    bytid = {}
    for e in events:
        bytid.setdefault(e['tid'], []).append(e)
    n = max(1, min(par, len(bytid)))
    shards = [[] for _ in range(n)]
    load = [0] * n
    for tid, evs in sorted(bytid.items(), key=lambda kv: -len(kv[1])):
        k = load.index(min(load))
        shards[k].extend(evs)
        load[k] += len(evs)
    paths = []
    for i, sh in enumerate(shards):
        path = os.path.join(wd, f'ext_{tag}_{i}.ndjson')
        with open(path, 'w') as f:
            for e in sh:
                f.write(json.dumps(e, separators=(',', ':')) + '\n')
        paths.append(path)
    v = tlc.validate_shards(paths, wd, par=par)
    for path in paths:
        os.remove(path)
    return v


def run(chk, thorough=False):
    """Trace the whole test-suite (one pytest process per test file, in parallel), validate, confirm rejections by
    re-running the test alone. Adds to chk: events, states, ext_violations."""
    tests = sorted(glob.glob(os.path.join(repo_root(), 'tests', 'test_*.py')))
    if not tests:
        raise MachineryError('no tests found under ' + repo_root())
    maxev, maxbits = (3000, 20000) if thorough else (300, 4096)

    # one pytest process per test file, except that test_mxfp.py only passes after test_fp8.py has imported
    # gfloat.formats in the same process (an order dependence of the suite itself)
    groups = []
    for path in tests:
        rel = os.path.relpath(path, repo_root())
        if os.path.basename(path) == 'test_mxfp.py' and groups and os.path.basename(groups[-1][-1]) == 'test_fp8.py':
            groups[-1].append(rel)
        else:
            groups.append([rel])

    def one(i_group):
        i, group = i_group
        out = os.path.join(chk.tmpbase, f'ext_{i}.ndjson')
        return run_pytest(group, out, maxev, maxbits)
    with ThreadPoolExecutor(max_workers=8) as ex:
        results = list(ex.map(one, enumerate(groups)))
    events, nodeids = [], {}
    stats_all = []
    base = 0
    for (evs, nids, stats), path in zip(results, ['+'.join(g) for g in groups]):
        # tids are per process: make them unique across files
        for e in evs:
            e['tid'] += base
        for t, nid in nids.items():
            nodeids[t + base] = nid
        base += 100000
        events.extend(evs)
        stats_all.append(dict(stats, file=os.path.basename(path)))
        if stats.get('pytest_rc') not in (0,):
            chk.notes.append(f"pytest under the tracer: {os.path.basename(path)}: {stats.get('pytest_summary')}")
    if not events:
        raise MachineryError('the tracer recorded no events: ' + json.dumps(stats_all)[:1500])
    v = validate(events, chk.wd, 'all')
    chk.states += v['states']
    chk.transitions += v['transitions']
    chk.nevents += len(events)
    for e in events:
        chk.opcount[e['op']] = chk.opcount.get(e['op'], 0) + 1
    byts = {(e['tid'], e['seq']): e for e in events}
    # confirm: the failing test alone, in a fresh interpreter
    violations = []
    seen_tests = set()
    for tid, seq, clause in sorted(v['rejects']):
        nid = nodeids.get(tid)
        if nid is None or nid in seen_tests or len(seen_tests) >= 12:
            continue
        seen_tests.add(nid)
        out = os.path.join(chk.tmpbase, f'ext_confirm_{len(seen_tests)}.ndjson')
        evs2, _, _ = run_pytest([nid], out, maxev, maxbits)
        v2 = validate(evs2, chk.wd, f'c{len(seen_tests)}', par=1) if evs2 else {'rejects': []}
        if v2['rejects']:
            t2, s2, c2 = sorted(v2['rejects'])[0]
            ev = [e for e in evs2 if e['seq'] == s2][0]
            violations.append({'nodeid': nid, 'seq': s2, 'clause': c2, 'ev': ev})
        else:
            chk.notes.append(f'rejection in {nid} (event {seq}, {clause}) did not reproduce when the test ran alone')
    chk.extra_cov['repository_tests_traced'] = {
        'tests': len(nodeids), 'events': len(events), 'rejected_events': len(v['rejects']),
        'per_file': [{k: s.get(k) for k in ('file', 'events', 'tests', 'calls_skipped_large', 'tests_cut', 'pytest_summary')} for s in stats_all]}
    chk.ext_violations = getattr(chk, 'ext_violations', []) + violations
    return violations


def write_replay(chk, v):
    from .core import digest
    os.makedirs(os.path.join(VERIF, 'replays'), exist_ok=True)
    body = {'property': chk.pid, 'kind': 'repository-test', 'nodeid': v['nodeid'], 'clause': v['clause'], 'seq': v['seq'],
            'observed_event': v['ev']}
    path = os.path.join(VERIF, 'replays', f"{chk.pid}-ext-{digest([v['nodeid'], v['seq']])}.json")
    with open(path, 'w') as f:
        json.dump(body, f, indent=1)
    return path


def replay(body, path):
    import tempfile
    d = tempfile.mkdtemp(prefix='verif_extreplay_', dir=('/dev/shm' if __import__('os').path.isdir('/dev/shm') else None))
    try:
        evs, _, stats = run_pytest([body['nodeid']], os.path.join(d, 't.ndjson'), 3000, 20000)
        wd = tlc.workdir('extreplay_%d' % os.getpid())
        v = validate(evs, wd, 'r', par=1) if evs else {'rejects': []}
        import shutil
        shutil.rmtree(wd, ignore_errors=True)
        print(f"{body['nodeid']}: {len(evs)} events recorded ({stats.get('pytest_summary')})")
        for tid, seq, clause in v['rejects']:
            ev = [e for e in evs if e['seq'] == seq][0]
            print(f"REJECTED by the specification: event #{seq} ({ev['sa']} on {ev['t']}), clause {clause}")
            print(json.dumps(ev)[:1500])
        if v['rejects']:
            print(f"VIOLATION property={body['property']} replay={path}")
            return 1
        print('ACCEPTED: every event conforms to the specification')
        return 0
    finally:
        import shutil
        shutil.rmtree(d, ignore_errors=True)
