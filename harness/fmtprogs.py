"""Random format programs (C05, C18, token-list reads of C06)."""
import struct as _struct

from .enc import NONE_I, enc_int, enc_float, CLS_CODE
from . import drivers as _d
from .codecprogs import boundary_int, interesting_float, GOLOMB


def tok(nm, n=NONE_I, val=None):
    return {'nm': nm, 'n': n, 'hv': 0 if val is None else 1, 'val': [0] if val is None else val}


def rand_value_for(rng, nm, n, conforming=True):
    """(value, n) for a token kind; n may be chosen here"""
    if nm in ('uint', 'int', 'u', 'i'):
        signed = nm in ('int', 'i')
        v = boundary_int(rng, n, signed)
        if conforming:
            lo, hi = (-(1 << (n - 1)), (1 << (n - 1)) - 1) if signed else (0, (1 << n) - 1)
            v = min(max(v, lo), hi)
        return enc_int(v)
    if nm in ('uintbe', 'intbe', 'uintle', 'intle', 'uintne', 'intne'):
        signed = nm.startswith('int')
        lo, hi = (-(1 << (n - 1)), (1 << (n - 1)) - 1) if signed else (0, (1 << n) - 1)
        return enc_int(rng.choice([lo, hi, 0, 1, rng.randint(lo, hi)]))
    if nm in ('hex', 'h'):
        return [4] + [rng.randrange(16) for _ in range(n // 4)]
    if nm in ('oct', 'o'):
        return [5] + [rng.randrange(8) for _ in range(n // 3)]
    if nm in ('bin', 'b'):
        return [6] + [rng.randrange(2) for _ in range(n)]
    if nm == 'bool':
        return [1, rng.randrange(2)]
    if nm == 'bytes':
        return [7] + [rng.randrange(256) for _ in range(n)]
    if nm == 'bits':
        bits = _d.rand_bits(rng, n)
        return [8, rng.choice([1, 2, 3, 4]), -1, n] + bits
    if nm in ('float', 'floatle', 'floatne', 'f', 'bfloat', 'bfloatle'):
        f = interesting_float(rng)
        return enc_float(f)
    if nm in GOLOMB:
        e = rng.choice([1, 2, 3, 6, 10, 33])
        v = rng.getrandbits(e)
        if nm in ('se', 'sie') and rng.random() < 0.5:
            v = -v
        return enc_int(v)
    raise ValueError(nm)


KINDS = ['uint', 'int', 'hex', 'bin', 'oct', 'bool', 'bits', 'bytes', 'float', 'floatle', 'uintbe', 'intle', 'uintne',
         'ue', 'se', 'uie', 'sie', 'pad', 'lit', 'bfloat', 'u', 'i', 'h', 'b']


def rand_token(rng, allow_stretchy):
    nm = rng.choice(KINDS)
    if nm == 'lit':
        bits = _d.rand_bits(rng, rng.choice([1, 3, 4, 8, 12]))
        return tok('lit', NONE_I, [8, 1, -1, len(bits)] + bits), None
    if nm in GOLOMB:
        return tok(nm), nm
    if nm == 'pad':
        return tok('pad', rng.choice([0, 1, 3, 8])), None
    if nm == 'bool':
        return tok('bool', rng.choice([NONE_I, 1])), 'bool'
    if nm in ('bfloat',):
        return tok(nm, rng.choice([NONE_I, 16])), nm
    if nm in ('float', 'floatle'):
        return tok(nm, rng.choice([16, 32, 64])), nm
    if nm in ('uintbe', 'intle', 'uintne'):
        return tok(nm, rng.choice([8, 16, 24, 40])), nm
    if nm in ('hex', 'h'):
        n = 4 * rng.randint(0, 6)
    elif nm in ('oct', 'o'):
        n = 3 * rng.randint(0, 6)
    elif nm == 'bytes':
        n = rng.randint(0, 4)
    elif nm in ('uint', 'int', 'u', 'i'):
        n = rng.choice([1, 2, 3, 5, 8, 9, 16, 31, 32, 33, 64, 65])
        return tok(nm, n), nm
    else:
        n = rng.choice([0, 1, 2, 5, 8, 13])
    if allow_stretchy and rng.random() < 0.25:
        return tok(nm, NONE_I), nm + '*' + str(n)
    return tok(nm, n), nm


def rand_format(rng, maxtok=6):
    """tokens, values (conforming), and the same tokens prepared for reading back"""
    toks, vals = [], []
    k = rng.choice([0, 1, 1, 2, 2, 3, 4, 5, maxtok])
    stretchy_used = False
    for i in range(k):
        t, kind = rand_token(rng, allow_stretchy=not stretchy_used)
        if kind and '*' in kind:
            stretchy_used = True
            nm, n = kind.split('*')
            v = rand_value_for(rng, nm, int(n))
        elif kind:
            n = t['n'] if t['n'] != NONE_I else (1 if kind == 'bool' else 16)
            v = rand_value_for(rng, kind, n)
        else:
            v = None
        if v is not None and rng.random() < 0.2 and v[0] in (1, 2, 3, 4, 5, 6):
            t = dict(t, hv=1, val=v)     # embedded value
        elif v is not None:
            vals.append(v)
        toks.append(t)
        # a run of the same token (for multiplier spellings)
        if kind and '*' not in kind and rng.random() < 0.2 and t['hv'] == 0:
            for _ in range(rng.randint(1, 3)):
                toks.append(dict(t))
                vals.append(rand_value_for(rng, kind, n))
    return toks, vals


def read_tokens(toks):
    """tokens for unpack/readlist of what pack produced: values dropped, literals become bits:n"""
    out = []
    seen_stretchy = False
    for t in toks:
        if t['nm'] == 'lit':
            out.append(tok('bits', t['val'][3]))
        else:
            out.append(tok(t['nm'], t['n']))
    return out


def fmt_program(rng, lsb0=False):
    calls = []
    if lsb0:
        calls.append(_d.setopt('lsb0', 1))
    for _ in range(rng.randint(1, 3)):
        toks, vals = rand_format(rng)
        style = rng.getrandbits(7)
        r = rng.random()
        if r < 0.12 and vals:
            vals = vals[:-1]                      # too few
        elif r < 0.2:
            vals = vals + [enc_int(1)]            # too many
        elif r < 0.3 and vals:
            # wrong size / out of range value for a sized token
            i = rng.randrange(len(vals))
            if vals[i][0] == 2:
                vals[i] = enc_int((1 << 70) + 5)
            elif vals[i][0] in (4, 5, 6):
                vals[i] = vals[i] + [1]
        calls.append({'op': 'pack', 'rid': 'p', 'tk': toks, 'va': vals, 'ia': [style], 'drop': ['*']})
        rt = read_tokens(toks)
        rstyle = rng.getrandbits(8) & ~4
        # golomb / stretchy structure rules are judged by the spec; just ask
        calls.append({'op': 'unpack', 't': 'p', 'tk': rt, 'ia': [rstyle]})
        calls.append({'op': 'setpos', 't': 'p', 'sa': ['pos'], 'ia': [0]})
        calls.append({'op': rng.choice(['readlist', 'peeklist']), 't': 'p', 'tk': rt, 'ia': [rstyle]})
        if rng.random() < 0.5:
            # read a prefix of the tokens, then the rest
            cut = rng.randint(0, len(rt))
            calls.append({'op': 'setpos', 't': 'p', 'sa': ['pos'], 'ia': [0]})
            calls.append({'op': 'readlist', 't': 'p', 'tk': rt[:cut], 'ia': [rstyle & ~128]})
            calls.append({'op': 'readlist', 't': 'p', 'tk': rt[cut:], 'ia': [rstyle]})
            calls.append({'op': 'readlist', 't': 'p', 'tk': rt[:1] or [tok('uint', 1)], 'ia': [0]})
        if rng.random() < 0.4:
            # all values embedded: token string == pack with separate values
            etoks = []
            vi = 0
            ok = True
            for t in toks:
                if t['hv'] or t['nm'] in ('lit', 'pad'):
                    etoks.append(t)
                else:
                    if vi >= len(vals) or vals[vi][0] not in (1, 2, 3, 4, 5, 6):
                        ok = False
                        break
                    etoks.append(dict(t, hv=1, val=vals[vi]))
                    vi += 1
            if ok:
                calls.append({'op': 'newfmt', 'rid': 'q', 'sa': [rng.choice(_d.CLASSES), rng.choice(['ctor', 'fromstring'])],
                              'tk': etoks, 'ia': [style]})
                calls.append({'op': 'pack', 'rid': 'q2', 'tk': etoks, 'va': [], 'ia': [style ^ 3]})
    return {'calls': calls}


CODES = 'bBhHlLiIqQefd'
RANGE = {'b': (-128, 127), 'B': (0, 255), 'h': (-2 ** 15, 2 ** 15 - 1), 'H': (0, 2 ** 16 - 1), 'i': (-2 ** 31, 2 ** 31 - 1),
         'I': (0, 2 ** 32 - 1), 'l': (-2 ** 31, 2 ** 31 - 1), 'L': (0, 2 ** 32 - 1), 'q': (-2 ** 63, 2 ** 63 - 1),
         'Q': (0, 2 ** 64 - 1)}


def struct_program(rng):
    calls = []
    for _ in range(rng.randint(2, 5)):
        prefix = rng.choice(['>', '<', '=', '@', '>', '<'])
        codes = [rng.choice(CODES) for _ in range(rng.choice([1, 1, 2, 3, 4]))]
        if rng.random() < 0.3:
            codes = codes + [codes[-1]] * rng.randint(1, 3)
        elif rng.random() < 0.3:
            codes = codes * rng.randint(2, 3)          # a repeated block, may be written m*<block>
        vals = []
        for ch in codes:
            if ch in 'efd':
                f = interesting_float(rng) if rng.random() < 0.7 else rng.choice([0.0, -0.0])
                vals.append(enc_float(f))
            else:
                lo, hi = RANGE[ch]
                v = rng.choice([lo, hi, 0, 1, -1 if lo < 0 else 2, rng.randint(lo, hi)])
                if rng.random() < 0.04:
                    v = rng.choice([lo - 1, hi + 1])
                vals.append(enc_int(v))
        style = rng.getrandbits(3)
        calls.append({'op': 'packstruct', 'rid': 'p', 'sa': [prefix] + codes, 'va': vals, 'ia': [style], 'drop': ['*']})
        calls.append({'op': 'unpackstruct', 't': 'p', 'sa': [prefix] + codes, 'ia': [style]})
        calls.append({'op': 'tobytes', 't': 'p', 'sa': [rng.choice(['tobytes', 'prop', 'bytes()'])]})
    return {'calls': calls}


def stream_fmt_program(rng, lsb0=False):
    """readlist / peeklist of random token lists from random positions of random streams (C06)"""
    n = rng.choice([0, 1, 3, 8, 9, 15, 16, 17, 24, 31, 40, 64, 100])
    bits = _d.rand_bits(rng, n)
    if rng.random() < 0.4 and n:
        # exp-Golomb friendly: mostly zeros with a few ones
        bits = [1 if rng.random() < 0.25 else 0 for _ in range(n)]
    cls = rng.choice(_d.STREAMS)
    calls = []
    if lsb0:
        calls.append(_d.setopt('lsb0', 1))
    calls.append(_d.mk('s', cls, bits, 'bin', rng.randint(0, n)))
    for _ in range(rng.randint(2, 6)):
        k = rng.choice([0, 1, 1, 2, 3])
        toks = []
        stretchy = False
        for _ in range(k):
            t, kind = rand_token(rng, allow_stretchy=not stretchy)
            if t['nm'] == 'lit':
                t = tok('bits', t['val'][3])
            if kind and '*' in kind:
                stretchy = True
            if t['nm'] in ('uint', 'int', 'u', 'i') and rng.random() < 0.7:
                t = tok(t['nm'], rng.choice([1, 2, 3, 5, 8]))
            toks.append(t)
        calls.append({'op': rng.choice(['readlist', 'readlist', 'peeklist']), 't': 's', 'tk': toks,
                      'ia': [rng.getrandbits(8) & ~4]})
        if rng.random() < 0.3:
            calls.append({'op': 'setpos', 't': 's', 'sa': ['pos'], 'ia': [rng.randint(0, n)]})
    return {'calls': calls}
