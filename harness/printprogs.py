"""Programs for printable forms (C19)."""
from .enc import NONE_I
from . import drivers as _d

LENS = list(range(0, 71)) + [96, 100, 250, 500, 990, 996, 997, 998, 999, 1000, 1001, 1002, 1003, 1004, 1005, 1007, 1008, 1011,
                             1024, 2000, 4001]
PP_FORMATS = [('bin', 'bin', '', 8), ('hex', 'hex', '', 8), ('oct', 'oct', '', 12), ('bin, hex', 'bin', 'hex', 8),
              ('hex, bin', 'hex', 'bin', 8), ('bin:4', 'bin', '', 4), ('bin:16', 'bin', '', 16), ('hex:4', 'hex', '', 4),
              ('hex:16', 'hex', '', 16), ('hex:64', 'hex', '', 64), ('oct:3', 'oct', '', 3), ('oct:9', 'oct', '', 9),
              ('bin:12, hex:12', 'bin', 'hex', 12), ('b, h', 'bin', 'hex', 8), ('hex:12, bin', 'hex', 'bin', 12),
              ('bin:3, oct', 'bin', 'oct', 3), ('oct, bin', 'oct', 'bin', 6), ('h8', 'hex', '', 8), ('b:5', 'bin', '', 5),
              ('oct:12, hex:12', 'oct', 'hex', 12), ('bin:1', 'bin', '', 1), ('hex:8, hex:8', 'hex', 'hex', 8)]


def print_program(rng, lsb0=False):
    calls = []
    if lsb0:
        calls.append(_d.setopt('lsb0', 1))
    for _ in range(rng.randint(2, 4)):
        n = rng.choice(LENS)
        bits = _d.rand_bits(rng, n)
        cls = rng.choice(_d.CLASSES)
        calls.append(_d.rand_mk(rng, 'a', cls=cls, bits=bits))
        calls[-1]['drop'] = ['*']
        calls.append({'op': 'str_lex', 't': 'a'})
        calls.append({'op': 'repr_eval', 't': 'a', 'rid': 'e'})
        for _ in range(rng.randint(1, 3)):
            fmt, n1, n2, g = rng.choice(PP_FORMATS)
            width = rng.choice([0, 1, 5, 10, 20, 40, 60, 80, 100, 120, 150, 200, rng.randint(0, 200)])
            sep = rng.choice([' ', ' ', '_', '  ', '-', '|'])
            calls.append({'op': 'pp_lex', 't': 'a', 'sa': [fmt, n1, n2, sep],
                          'ia': [g, width, rng.randint(0, 1), 1 if n2 else 0, rng.randint(0, 1),
                                 1 if any(ch.isdigit() for ch in fmt) else 0]})
    return {'calls': calls}


def array_repr_program(rng):
    from . import arrayprogs
    calls = []
    for _ in range(rng.randint(2, 4)):
        name, n = rng.choice([d for d in arrayprogs.DTYPES if d[0] not in ('bits',)])
        items = []
        for _ in range(rng.randint(0, 5)):
            v = arrayprogs.item_value(rng, name, n)
            items.append(v)
        mk = {'op': 'anew', 'rid': 'a', 'sa': [name, 'list'], 'ia': [n, 0], 'va': items, 'drop': ['*']}
        w = n * (8 if name == 'bytes' else 1)
        if w > 1 and rng.random() < 0.3:
            mk['xs'] = [_d.lit('bin', _d.rand_bits(rng, rng.randint(1, w - 1)))]
        calls.append(mk)
        calls.append({'op': 'arepr_eval', 't': 'a', 'rid': 'e'})
    return {'calls': calls}
