"""Programs for the 8/6/4-bit float formats, E8M0, MXINT8 (C11)."""
import struct as _struct

from .enc import NONE_I, enc_float
from . import drivers as _d
from .codecprogs import interesting_float

MINI = ['e4m3mxfp', 'e5m2mxfp', 'e3m2mxfp', 'e2m3mxfp', 'e2m1mxfp', 'p4binary', 'p3binary', 'e8m0mxfp', 'mxint']
WIDTH = {'e4m3mxfp': 8, 'e5m2mxfp': 8, 'e3m2mxfp': 6, 'e2m3mxfp': 6, 'e2m1mxfp': 4, 'p4binary': 8, 'p3binary': 8,
         'e8m0mxfp': 8, 'mxint': 8}
NEW_ROUTES = ['kw_len', 'kw_namelen', 'token', 'dtype_build', 'dtype_build_name', 'pack', 'pack_val', 'prop', 'fromstring']
READ_ROUTES = ['prop', 'prop_len', 'dtype_parse', 'unpack', 'read']


def programs_from_mini_rows(rows, chunk=160):
    """every row under both mxfp_overflow settings (the option is switched inside the program, back and forth)"""
    progs, cur = [], None
    k = 0
    mode = 0
    for r in rows:
        if cur is None or len(cur) >= chunk:
            cur = []
            progs.append({'calls': cur})
            mode = 0
        name = r['name']
        if r['kind'] == 'new':
            for want in (0, 1, 0):
                if want != mode:
                    cur.append(_d.setopt('mx', want))
                    mode = want
                k += 1
                route = NEW_ROUTES[k % len(NEW_ROUTES)]
                cls = _d.MUTABLE[k % 2] if route == 'prop' else _d.CLASSES[k % 4]
                n = WIDTH[name] if route != 'kw_len' or k % 2 else NONE_I
                if route in ('kw_namelen', 'dtype_build_name', 'prop'):
                    n = WIDTH[name]
                cur.append({'op': 'newval', 'rid': 'a', 'sa': [cls, name, route, str(k % 3)], 'ia': [n], 'va': [r['val']],
                            'drop': ['*']})
                if want == 1 and name not in ('e4m3mxfp', 'e5m2mxfp'):
                    break
        else:
            k += 1
            m = _d.mk('a', _d.CLASSES[k % 4], r['bits'], 'bin', NONE_I)
            m['drop'] = ['*']
            cur.append(m)
            for rr in READ_ROUTES:
                cur.append({'op': 'interp', 't': 'a', 'sa': [name, rr, str(k % 3)],
                            'ia': [NONE_I if rr == 'prop' else WIDTH[name]]})
    return progs


def random_mini_program(rng):
    calls = []
    mode = 0
    for _ in range(rng.randint(5, 12)):
        if rng.random() < 0.25:
            mode = 1 - mode
            calls.append(_d.setopt('mx', mode))
        name = rng.choice(MINI)
        r = rng.random()
        if r < 0.35:
            f = interesting_float(rng)
        elif r < 0.7:
            # a midpoint between two neighbouring codes of some format, +- 1 ulp, or around 65504 / format maxima
            base = rng.choice([448.0, 464.0, 480.0, 57344.0, 61440.0, 65504.0, 65519.0, 65520.0, 28.0, 30.0, 7.5, 7.75, 6.0, 7.0,
                               224.0, 232.0, 240.0, 49152.0, 53248.0, 1.984375, 1.9921875, 1.99609375, 2.0, 0.0078125,
                               0.015625 / 2, 2.0 ** -17, 2.0 ** -10, 2.0 ** -9 * 1.5, 0.001953125, 2.0 ** -127, 2.0 ** 127,
                               2.0 ** -126 * 0.5, 1.5 / 64, 0.5 / 64, 2.5 / 64, 127.5 / 64, 126.5 / 64])
            raw = _struct.unpack('>Q', _struct.pack('>d', base))[0] + rng.choice([-1, 0, 0, 1])
            f = _struct.unpack('>d', _struct.pack('>Q', raw))[0]
            if rng.random() < 0.5:
                f = -f
        else:
            f = rng.choice([0.0, -0.0, float('inf'), float('-inf'), float('nan'), 1.0, -1.0, 0.5, 3.0, 1e-10, -1e-10,
                            2.0 ** rng.randint(-130, 130), rng.uniform(-500, 500), rng.uniform(-8, 8), rng.uniform(-70000, 70000)])
        route = rng.choice(NEW_ROUTES)
        cls = rng.choice(_d.MUTABLE if route == 'prop' else _d.CLASSES)
        n = WIDTH[name] if (route != 'kw_len' or rng.random() < 0.5) else NONE_I
        if rng.random() < 0.04:
            n = rng.choice([4, 6, 8, 16])
        calls.append({'op': 'newval', 'rid': 'a', 'sa': [cls, name, route, str(rng.randint(0, 2))], 'ia': [n],
                      'va': [enc_float(f)], 'drop': ['*']})
        calls.append({'op': 'interp', 't': 'a', 'sa': [name, rng.choice(READ_ROUTES), '0'], 'ia': [WIDTH[name]]})
    return {'calls': calls}


def scaled_program(rng):
    calls = []
    for _ in range(rng.randint(4, 9)):
        name = rng.choice(MINI[:7] + ['float', 'float', 'mxint', 'uint', 'int'])
        k = rng.choice([-8, -3, -1, 0, 1, 2, 6, 10])
        if name in ('uint', 'int'):
            n = rng.choice([8, 12, 16])
            k = abs(k)
            from .enc import enc_int
            v = rng.randint(0, 200) << k
            if name == 'int' and rng.random() < 0.5:
                v = -v
            if rng.random() < 0.1:
                v = (1 << (n + k)) + (1 << k)
            val = enc_int(v)
        else:
            n = WIDTH.get(name, rng.choice([16, 32, 64]) if name == 'float' else 8)
            f = rng.choice([0.0, 1.0, -1.5, 3.0, 0.375, 448.0, 500.0, 6.0, 7.5, 28.0, 57344.0, 1e5, -1e5, 0.1, 1 / 3,
                            float('inf'), rng.uniform(-300, 300), rng.uniform(-2, 2)])
            val = enc_float(f)
        calls.append({'op': 'newscaled', 'rid': 'a', 'sa': [name], 'ia': [n, k], 'va': [val], 'drop': ['*']})
        calls.append({'op': 'interpscaled', 't': 'a', 'sa': [name], 'ia': [n, k]})
        calls.append({'op': 'interp', 't': 'a', 'sa': [name, 'prop', '0'], 'ia': [NONE_I]})
    return {'calls': calls}
