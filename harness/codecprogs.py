"""Programs for the value <-> bits rows enumerated by Gen_Codec.tla (and for random values)."""
from .drivers import CLASSES, MUTABLE, mk, lit
from .enc import NONE_I

GOLOMB = ('ue', 'se', 'uie', 'sie')
TEXT = ('hex', 'oct', 'bin')
ALL_NEW_ROUTES = ['kw_len', 'kw_namelen', 'token', 'fromstring', 'dtype_build', 'dtype_build_name', 'pack',
                  'pack_kw', 'pack_val', 'prop', 'prop_sized']
READ_ROUTES = ['prop', 'prop_len', 'dtype_parse', 'unpack', 'unpack_kw', 'read']


def new_routes(name, n, val):
    tag = val[0]
    routes = []
    has_text = tag in (1, 2, 3, 4, 5, 6)
    if name in GOLOMB:
        routes = ['kw_len', 'dtype_build', 'pack', 'prop']
        if has_text:
            routes += ['token', 'pack_val', 'fromstring']
        if n != NONE_I:
            routes = ['kw_len', 'dtype_build', 'pack']
        return routes
    if name != 'bytes':
        routes.append('kw_len')
    routes += ['dtype_build', 'pack']
    if n != NONE_I:
        routes.append('pack_kw')
    if n != NONE_I and n >= 0:
        routes += ['kw_namelen', 'dtype_build_name']
    if has_text:
        routes += ['token', 'pack_val', 'fromstring']
    if n == NONE_I or n >= 0:
        routes.append('prop')
    if n != NONE_I and n >= 1 and name not in TEXT and name not in ('bool', 'bytes', 'bits') and not name.startswith('bfloat'):
        routes.append('prop_sized')
    return routes


def programs_from_codec_rows(rows, chunk=150, setprop=True, read_back=True):
    progs = []
    cur = None
    k = 0

    def push(call):
        nonlocal cur
        if cur is None or len(cur) >= chunk:
            cur = []
            progs.append({'calls': cur})
        cur.append(call)

    for r in rows:
        if r['kind'] == 'new':
            name, n, val = r['name'], r['n'], r['val']
            for route in new_routes(name, n, val):
                k += 1
                cls = CLASSES[k % 4]
                if route in ('prop', 'prop_sized'):
                    cls = MUTABLE[k % 2]
                push({'op': 'newval', 'rid': 'a', 'sa': [cls, name, route, str(k % 3)], 'ia': [n], 'va': [val],
                      'drop': ['*']})
                if read_back and name not in ('pad',):
                    rr = READ_ROUTES[k % len(READ_ROUTES)]
                    if name in GOLOMB:
                        rr = 'prop' if k % 2 else 'dtype_parse'
                        push({'op': 'interp', 't': 'a', 'sa': [name, rr, str(k % 3)], 'ia': [NONE_I]})
                    elif n != NONE_I and n >= 0:
                        push({'op': 'interp', 't': 'a', 'sa': [name, rr, str(k % 3)], 'ia': [n]})
            if setprop and name not in ('pad',):
                k += 1
                cls = MUTABLE[k % 2]
                m = mk('a', cls, [1, 0, 1, 1, 0, 0, 1, 0][:(k % 9)], 'bin', NONE_I)
                m['drop'] = ['*']
                push(m)
                push({'op': 'setprop', 't': 'a', 'sa': [name], 'ia': [n if (n == NONE_I or n >= 0) else NONE_I],
                      'va': [val]})
        else:
            name, bits = r['name'], r['bits']
            unit = 8 if name == 'bytes' else 1
            k += 1
            cls = CLASSES[k % 4]
            m = mk('a', cls, bits, 'bin', NONE_I)
            m['drop'] = ['*']
            push(m)
            n = len(bits) // unit
            for rr in READ_ROUTES:
                if name in GOLOMB:
                    if rr in ('prop', 'dtype_parse'):
                        push({'op': 'interp', 't': 'a', 'sa': [name, rr, '0'], 'ia': [NONE_I], 'drop': ['r*']})
                    continue
                if rr == 'prop':
                    push({'op': 'interp', 't': 'a', 'sa': [name, rr, '0'], 'ia': [NONE_I], 'drop': ['r*']})
                elif len(bits) % unit == 0:
                    push({'op': 'interp', 't': 'a', 'sa': [name, rr, str(k % 3)], 'ia': [n], 'drop': ['r*']})
            if name in GOLOMB or name in ('uint', 'int', 'bin', 'bool', 'hex'):
                # positional reads from every position
                for p in range(len(bits) + 1):
                    m = mk('s', 'BitStream' if (k + p) % 2 else 'ConstBitStream', bits, 'bin', p)
                    m['drop'] = ['*']
                    push(m)
                    if name in GOLOMB:
                        push({'op': 'readtok', 't': 's', 'sa': [name], 'ia': [NONE_I]})
                        push({'op': 'peektok', 't': 's', 'sa': [name], 'ia': [NONE_I]})
                        tk1 = [{'nm': name, 'n': NONE_I, 'hv': 0, 'val': [0]}]
                        m2 = mk('s', 'BitStream' if (k + p) % 2 else 'ConstBitStream', bits, 'bin', p)
                        m2['drop'] = ['*']
                        push(m2)
                        push({'op': 'peeklist', 't': 's', 'tk': tk1, 'ia': [0]})
                        push({'op': 'readlist', 't': 's', 'tk': tk1 + tk1, 'ia': [p % 2]})
                        if p == 0:
                            push({'op': 'unpack', 't': 's', 'tk': tk1, 'ia': [0]})
                            push({'op': 'unpack', 't': 's', 'tk': tk1 + [{'nm': 'bits', 'n': NONE_I, 'hv': 0, 'val': [0]}], 'ia': [0]})
                    else:
                        for nn in (0, 1, 2, len(bits) - p, len(bits) - p + 1, NONE_I):
                            if name == 'hex':
                                nn = nn if nn == NONE_I else 4 * (nn // 2)
                            push({'op': 'readtok' if (k + nn) % 2 else 'peektok', 't': 's', 'sa': [name, str(k % 3)],
                                  'ia': [nn]})
    return progs


# ---------------------------------------------------------------------------
# random values at sizes TLC cannot enumerate (role C)
import struct as _struct

from .enc import enc_int, enc_float
from . import drivers as _d

INT_NAMES = ['uint', 'int', 'u', 'i']
BYTE_INT_NAMES = ['uintbe', 'intbe', 'uintle', 'intle', 'uintne', 'intne']
FLOAT_NAMES = ['float', 'floatbe', 'floatle', 'floatne', 'f']
BFLOAT_NAMES = ['bfloat', 'bfloatbe', 'bfloatle', 'bfloatne']


def boundary_int(rng, n, signed):
    n = max(n, 1)
    if signed:
        lo, hi = -(1 << (n - 1)), (1 << (n - 1)) - 1
    else:
        lo, hi = 0, (1 << n) - 1
    return rng.choice([0, 1, -1, lo, hi, lo - 1, hi + 1, lo + 1, hi - 1, rng.randint(lo, hi), rng.randint(lo, hi),
                       rng.randint(lo - 5, hi + 5), hi // 2, lo // 2 if lo else 2])


def interesting_float(rng):
    r = rng.random()
    if r < 0.12:
        return rng.choice([0.0, -0.0, float('inf'), float('-inf'), float('nan'), 1.0, -1.0, 65504.0, 65519.99, 65520.0,
                           5.960464477539063e-08, 2.9802322387695312e-08, 2.98023223876953e-08, 2.9802322387695316e-08,
                           6.103515625e-05, 3.4028234663852886e+38, 3.4028235677973366e+38, 3.4028235677973362e+38,
                           1e-45, 7.006492321624085e-46, 7.006492321624087e-46, 1.401298464324817e-45, 5e-324, 1.7976931348623157e308,
                           1.1754943508222875e-38, 1.1754942106924411e-38])
    if r < 0.4:
        # a float32 / float16 midpoint +- 1 ulp of the double
        if rng.random() < 0.5:
            bits = rng.getrandbits(31)
            a = _struct.unpack('>f', _struct.pack('>I', bits))[0]
            b = _struct.unpack('>f', _struct.pack('>I', min(bits + 1, 0x7f7fffff)))[0]
        else:
            bits = rng.getrandbits(15)
            a = _struct.unpack('>e', _struct.pack('>H', min(bits, 0x7bfe)))[0]
            b = _struct.unpack('>e', _struct.pack('>H', min(bits, 0x7bfe) + 1))[0]
        if a != a or b != b or a in (float('inf'),) or b in (float('inf'),):
            return 1.5
        mid = (a + b) / 2
        raw = _struct.unpack('>Q', _struct.pack('>d', mid))[0] + rng.choice([-1, 0, 0, 1])
        v = _struct.unpack('>d', _struct.pack('>Q', raw))[0]
        return -v if rng.random() < 0.5 else v
    if r < 0.7:
        raw = rng.getrandbits(64)
        return _struct.unpack('>d', _struct.pack('>Q', raw))[0]
    return rng.uniform(-1, 1) * 10 ** rng.randint(-50, 45)


def random_codec_program(rng, golomb=False):
    calls = []
    k = rng.randint(0, 1000)
    for _ in range(rng.randint(6, 14)):
        k += 1
        r = rng.random()
        if golomb or r < 0.12:
            name = rng.choice(GOLOMB)
            e = rng.choice([1, 4, 8, 16, 31, 32, 33, 64, 65, 128, 200])
            v = rng.choice([0, 1, -1, 2, (1 << e) - 1, (1 << e), -(1 << e), (1 << e) - 2, rng.getrandbits(e),
                            -rng.getrandbits(e)])
            n = NONE_I
            val = enc_int(v)
        elif r < 0.45:
            signed = rng.random() < 0.5
            name = rng.choice(['int', 'i'] if signed else ['uint', 'u'])
            n = rng.choice([1, 2, 7, 8, 9, 31, 32, 33, 63, 64, 65, 127, 128, 129, 200, 333, rng.randint(1, 70)])
            val = enc_int(boundary_int(rng, n, signed))
        elif r < 0.65:
            name = rng.choice(BYTE_INT_NAMES)
            n = 8 * rng.choice([1, 2, 3, 4, 5, 8, 9, 16, 24, 40])
            if rng.random() < 0.06:
                n += rng.choice([1, 4, -3])
            val = enc_int(boundary_int(rng, n, name.startswith('int')))
        elif r < 0.88:
            name = rng.choice(FLOAT_NAMES)
            n = rng.choice([16, 32, 64, 64, 32, 16, 8, 24, 128] if rng.random() < 0.1 else [16, 32, 64])
            val = enc_float(interesting_float(rng))
        else:
            name = rng.choice(BFLOAT_NAMES)
            n = rng.choice([16, NONE_I])
            val = enc_float(interesting_float(rng))
        routes = new_routes(name if name not in ('u', 'i', 'f') else {'u': 'uint', 'i': 'int', 'f': 'float'}[name], n, val)
        route = rng.choice(routes)
        cls = rng.choice(MUTABLE if route in ('prop', 'prop_sized') else CLASSES)
        calls.append({'op': 'newval', 'rid': 'a', 'sa': [cls, name, route, str(k % 3)], 'ia': [n], 'va': [val],
                      'drop': ['*']})
        rr = rng.choice(READ_ROUTES)
        if name in GOLOMB:
            calls.append({'op': 'interp', 't': 'a', 'sa': [name, rng.choice(['prop', 'dtype_parse']), '0'], 'ia': [NONE_I]})
        elif n != NONE_I:
            calls.append({'op': 'interp', 't': 'a', 'sa': [name, rr, str(k % 3)], 'ia': [n]})
        else:
            calls.append({'op': 'interp', 't': 'a', 'sa': [name, 'prop', '0'], 'ia': [NONE_I]})
    return {'calls': calls}


def random_pattern_program(rng):
    """interpret random bit patterns of valid lengths by every reading route"""
    calls = []
    for _ in range(rng.randint(3, 7)):
        name = rng.choice(['uint', 'int', 'hex', 'oct', 'bin', 'bytes', 'bits'] + BYTE_INT_NAMES + FLOAT_NAMES[:4] + BFLOAT_NAMES)
        if name in FLOAT_NAMES:
            n = rng.choice([16, 32, 64])
        elif name in BFLOAT_NAMES:
            n = 16
        elif name in BYTE_INT_NAMES or name == 'bytes':
            n = 8 * rng.choice([1, 2, 3, 5, 8, 17])
        elif name == 'hex':
            n = 4 * rng.randint(0, 40)
        elif name == 'oct':
            n = 3 * rng.randint(0, 40)
        else:
            n = rng.choice([1, 7, 8, 9, 63, 64, 65, 100, 257])
        bits = _d.rand_bits(rng, n)
        m = _d.rand_mk(rng, 'a', bits=bits)
        m['drop'] = ['*']
        calls.append(m)
        unit = 8 if name == 'bytes' else 1
        for rr in READ_ROUTES:
            calls.append({'op': 'interp', 't': 'a', 'sa': [name, rr, str(rng.randint(0, 2))],
                          'ia': [NONE_I if rr == 'prop' else n // unit], 'drop': ['r*']})
    return {'calls': calls}


def golomb_stream_program(rng):
    """a stream of mixed codewords, read back token by token; truncations at random cut points"""
    calls = [_d.mk('s', 'BitStream', [], 'bin', NONE_I)]
    names = []
    for _ in range(rng.randint(1, 8)):
        name = rng.choice(GOLOMB)
        e = rng.choice([1, 2, 3, 5, 8, 16, 33, 70])
        v = rng.choice([0, 1, 2, 3, rng.getrandbits(e), (1 << e) - 1])
        if name in ('se', 'sie') and rng.random() < 0.5:
            v = -v
        calls.append({'op': 'newval', 'rid': 'c', 'sa': ['Bits', name, rng.choice(['kw_len', 'token', 'pack', 'dtype_build']), '0'],
                      'ia': [NONE_I], 'va': [enc_int(v)]})
        calls.append({'op': 'append', 't': 's', 'xs': [_d.ref('c')]})
        names.append(name)
    if rng.random() < 0.3:
        calls.append({'op': 'append', 't': 's', 'xs': [_d.lit('bin', _d.rand_bits(rng, rng.randint(1, 9)))]})
    calls.append({'op': 'setpos', 't': 's', 'sa': ['pos'], 'ia': [0]})
    for name in names:
        calls.append({'op': rng.choice(['readtok', 'readtok', 'peektok']), 't': 's', 'sa': [name], 'ia': [NONE_I]})
        if calls[-1]['op'] == 'peektok':
            calls.append({'op': 'readtok', 't': 's', 'sa': [name], 'ia': [NONE_I]})
    calls.append({'op': 'readtok', 't': 's', 'sa': [rng.choice(GOLOMB)], 'ia': [NONE_I]})
    # truncated copies
    for _ in range(rng.randint(1, 4)):
        calls.append({'op': 'getslice', 't': 's', 'ia': [0, rng.randint(0, 60), NONE_I], 'rid': 'tr'})
        for name in names[:3]:
            calls.append({'op': 'readtok', 't': 'tr', 'sa': [name], 'ia': [NONE_I]})
        calls.append({'op': 'interp', 't': 'tr', 'sa': [rng.choice(GOLOMB), 'prop', '0'], 'ia': [NONE_I]})
    return {'calls': calls}


def golomb_history_program(rng):
    """mutable objects built straight from a code, mutated, and the same value encoded again (C10 / C04 / C09)"""
    calls = []
    name = rng.choice(GOLOMB)
    v = rng.choice([0, 1, 2, 3, 5, 8, 100])
    if name in ('se', 'sie') and rng.random() < 0.5:
        v = -v
    val = enc_int(v)
    cls = rng.choice(MUTABLE)
    calls.append({'op': 'newval', 'rid': 'm', 'sa': [cls, name, rng.choice(['kw_len', 'prop']), '0'], 'ia': [NONE_I], 'va': [val]})
    calls.append(_d.mutator_call(rng, [0, 1, 0], cls, 'm'))
    calls.append({'op': 'append', 't': 'm', 'xs': [_d.lit('bin', [1, 0, 1])]})
    for route in rng.sample(['kw_len', 'token', 'pack', 'dtype_build', 'prop'], 3):
        c2 = rng.choice(MUTABLE if route == 'prop' else CLASSES)
        calls.append({'op': 'newval', 'rid': 'x', 'sa': [c2, name, route, '0'], 'ia': [NONE_I], 'va': [val]})
        calls.append({'op': 'interp', 't': 'x', 'sa': [name, 'prop', '0'], 'ia': [NONE_I]})
    return {'calls': calls}


def equal_but_distinct_program(rng):
    """values that compare equal in Python but must encode differently or identically: +0.0 / -0.0, True / 1"""
    calls = []
    names = FLOAT_NAMES + BFLOAT_NAMES
    for _ in range(rng.randint(2, 4)):
        name = rng.choice(names)
        n = 16 if name in BFLOAT_NAMES else rng.choice([16, 32, 64])
        first = rng.choice([0.0, -0.0])
        for f in (first, -first, first):
            routes = new_routes('float' if name == 'f' else name, n, enc_float(f))
            route = rng.choice(routes)
            cls = rng.choice(MUTABLE if route in ('prop', 'prop_sized') else CLASSES)
            calls.append({'op': 'newval', 'rid': 'z', 'sa': [cls, name, route, '0'], 'ia': [n], 'va': [enc_float(f)]})
            calls.append({'op': 'interp', 't': 'z', 'sa': [name, 'prop', '0'], 'ia': [NONE_I]})
    return {'calls': calls}


def value_history_program(rng):
    """The same (dtype, length, value) created again after an object holding it was changed in place: a value is
    stored in a mutable object by some route (incl. plain property assignment onto a sized object), that object is
    mutated, then the value is created afresh by other routes and read back.  Any memo that hands out shared storage
    shows as a wrong second creation."""
    calls = []
    for _ in range(rng.randint(2, 4)):
        kind = rng.random()
        if kind < 0.6:
            name = rng.choice(['uint', 'int', 'uintbe', 'intbe', 'uintle', 'intle', 'uintne', 'intne', 'u', 'i'])
            n = rng.choice([8, 16, 24, 32]) if len(name) > 4 else rng.choice([1, 3, 7, 8, 12, 16, 31, 33, 64])
            signed = name.startswith('i')
            lo, hi = (-(1 << (n - 1)), (1 << (n - 1)) - 1) if signed else (0, (1 << n) - 1)
            v = rng.choice([lo, hi, 0, 1, rng.randint(lo, hi), rng.randint(lo, hi)])
            val = enc_int(v)
        elif kind < 0.8:
            name = rng.choice(['float', 'floatle', 'floatne', 'bfloat'])
            n = 16 if name == 'bfloat' else rng.choice([16, 32, 64])
            val = enc_float(rng.choice([0.0, 1.0, -1.5, 3.25, 65504.0, 1e-3, -2.0]))
        else:
            name = rng.choice(['hex', 'bin', 'oct'])
            w = {'hex': 4, 'bin': 1, 'oct': 3}[name]
            k = rng.randint(1, 6)
            n = k * w
            tag = {'hex': 4, 'oct': 5, 'bin': 6}[name]
            val = [tag] + [rng.randrange(1 << w) for _ in range(k)]
        routes = new_routes(name, n, val)
        for round_ in range(rng.randint(2, 3)):
            first = rng.choice([r for r in routes if r in ('prop_sized', 'prop', 'kw_len', 'pack', 'dtype_build', 'token')] or routes)
            cls = rng.choice(MUTABLE) if first in ('prop', 'prop_sized') or rng.random() < 0.8 else rng.choice(CLASSES)
            calls.append({'op': 'newval', 'rid': 'h', 'sa': [cls, name, first, '0'], 'ia': [n], 'va': [val], 'drop': ['*']})
            if cls in MUTABLE:
                calls.append(rng.choice([
                    {'op': 'invert', 't': 'h', 'sa': ['none'], 'ia': []},
                    {'op': 'append', 't': 'h', 'xs': [{'k': 'lit', 'kind': 'bin', 'v': [1, 0, 1]}]},
                    {'op': 'set', 't': 'h', 'sa': ['none'], 'ia': [rng.randint(0, 1)]},
                    {'op': 'reverse', 't': 'h', 'ia': [NONE_I, NONE_I]},
                    {'op': 'delslice', 't': 'h', 'ia': [NONE_I, 1, NONE_I]},
                ]))
            second = rng.choice(routes)
            cls2 = rng.choice(MUTABLE if second in ('prop', 'prop_sized') else CLASSES)
            calls.append({'op': 'newval', 'rid': 'g', 'sa': [cls2, name, second, '0'], 'ia': [n], 'va': [val]})
            calls.append({'op': 'interp', 't': 'g', 'sa': [name, 'prop', '0'], 'ia': [NONE_I]})
    return {'calls': calls}
