#!/bin/bash
# Offline setup: nothing to build - the harness is pure Python run with /venv/bin/python and TLC is pre-installed.
# Sanity-check the tool chain and parse the specification modules once.
set -e
cd "$(dirname "$0")"
java -version 2>&1 | head -1
test -f /opt/veriftools/tla/tla2tools.jar
/venv/bin/python -c "import bitarray, json; print('python ok')"
mkdir -p evidence .work replays
for m in spec/Trace.tla; do
  (cd spec && java -cp /opt/veriftools/tla/tla2tools.jar:/opt/veriftools/tla/CommunityModules-deps.jar tla2sany.SANY "$(basename $m)" > /dev/null) && echo "parsed $m"
done
