#!/bin/bash
# Offline setup: nothing to build - the harness is pure Python run with /venv/bin/python and TLC is pre-installed.
# Sanity-check the tool chain and parse the specification modules once.
set -e
cd "$(dirname "$0")"
java -version 2>&1 | head -1
test -f /opt/veriftools/tla/tla2tools.jar
/venv/bin/python -c "import bitarray, json; print('python ok')"
mkdir -p evidence .work replays
for m in spec/Trace.tla spec/Ref.tla spec/Mech.tla spec/MC_Core.tla spec/MC_Array.tla spec/MC_Print.tla spec/MC_Codec.tla spec/MC_Serial.tla spec/MC_BitSeq.tla spec/MC_Bitwise.tla spec/Gen_Core.tla spec/Gen_C01.tla spec/Gen_Codec.tla spec/Gen_Mini.tla spec/Gen_Format.tla spec/Gen_Struct.tla spec/MC_CoreVac.tla spec/MechSim.tla spec/ArraySim.tla spec/PosMachine.tla; do
  (cd spec && java -cp /opt/veriftools/tla/tla2tools.jar:/opt/veriftools/tla/CommunityModules-deps.jar tla2sany.SANY "$(basename $m)" > /dev/null) && echo "parsed $m"
done
